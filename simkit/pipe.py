"""pipesim core: the workflow simulator's process launches and file artefacts.

Each function below is one *process* of the nextflow DAG: it gets file paths and a private
entropy seed, runs the real CLI main in-process, and leaves files.  The caller (an engine)
owns the schedule: which launch happens when, and in which order output files are handed to
the next stage (groupTuple() arrival order)."""
from __future__ import annotations

import os
import shutil

import numpy as np

from simkit import gen, launch
from simkit.kernel import HarnessError, digest, f64_bits, h64  # noqa: F401

SDC_SAMPLE = "SparseDrugComboMCMCSample"
SDCI_SAMPLE = "SparseDrugComboInteractionMCMCSample"


# ------------------------------------------------------------------ workload helpers


def gen_pipeline_screen(w, *, n_samples=None, n_names=None, n_plates=None, rows_per_plate=None,
                        single_sample_plates=False, observed_plates=None, control=None, allow_controls=True,
                        nonzero=True, big_rate=0.0):
    """An arity-2 screen without self-pairs, partially observed, values in (0,1)."""
    if big_rate and w.random() < big_rate:
        # more rows / samples / treatments than any plausible block size or one-byte id
        n_samples, n_names = w.choice([3, 35, 70]), w.choice([6, 40, 135])
        n_plates, rows_per_plate = w.choice([9, 34, 70]), w.choice([2, 4, 8])
    n_samples = n_samples or w.randint(1, 4)
    n_names = n_names or w.randint(3, 6)
    n_plates = n_plates or w.randint(2, 7)
    control = "" if control is None else control
    samples = [f"s{i}" for i in range(n_samples)]
    names = [f"d{i}" for i in range(n_names)]
    doses = [1.0, 2.0][: w.randint(1, 2)]
    conds = [(n, d) for n in names for d in doses]
    rows = []
    plates = [f"p{k:02d}" for k in range(n_plates)]
    if observed_plates is None:
        observed_plates = w.randint(1, max(1, n_plates - 1))
    obs_set = set(plates[:observed_plates])
    for p in plates:
        k = rows_per_plate or w.randint(1, 6)
        s_fixed = w.choice(samples)
        for _ in range(k):
            s = s_fixed if single_sample_plates else w.choice(samples)
            a = w.choice(conds)
            u = w.random()
            if allow_controls and u < 0.2:
                tr = [[a[0], a[1]], [control, 0.0]] if w.random() < 0.5 else [[control, 0.0], [a[0], a[1]]]
            elif allow_controls and u < 0.24:
                tr = [[control, 0.0], [control, 0.0]]
            else:
                b = w.choice([c for c in conds if c != a])
                tr = [[a[0], a[1]], [b[0], b[1]]]
            if not rows:  # at least one full combination: the screen must have a non-control treatment
                b = w.choice([c for c in conds if c != a])
                tr = [[a[0], a[1]], [b[0], b[1]]]
            v = w.uniform(0.03, 0.97)
            rows.append([s, tr, v, p, p in obs_set])
    return dict(control=control, arity=2, rows=rows)


def ensure_noncontrol(spec):
    """A pipeline screen must carry at least one non-control treatment (embedding tables would be
    empty otherwise, and indexing the control sentinel into an empty table is undefined)."""
    ctl = spec["control"]
    if not any(t[0] != ctl and t[1] > 0 for r in spec["rows"] for t in r[1]):
        spec["rows"][0][1] = [["d0", 1.0], ["d1", 1.0]][: spec["arity"]]
    return spec


def _special_values(rng, arr):
    """Parameter tables are not always dense draws from a continuous law: thresholded / zero-padded / freshly reset
    tables hold EXACT zeros (scattered, in the last row, a whole row or column), negative zeros and repeated values."""
    mode = int(rng.integers(0, 10))
    a = np.array(arr, dtype=float)
    if a.size == 0 or mode < 6:
        return a
    if mode == 6:
        a[rng.random(a.shape) < 0.3] = 0.0
    elif mode == 7:
        last = a[-1:].reshape(-1)
        if last.size > 1:
            last[: max(1, last.size // 2)] = 0.0
        else:
            last[:] = 0.0
        a[-1:] = last.reshape(a[-1:].shape)
    elif mode == 8:
        a[int(rng.integers(0, a.shape[0]))] = 0.0
        if a.ndim == 2:
            a[:, int(rng.integers(0, a.shape[1]))] = -0.0
    else:
        a[...] = a.reshape(-1)[0]
    return a


def _precision_value(rng):
    """Mostly six orders of magnitude around one; sometimes far in either tail or exactly at a round bound (a posterior
    sample is a value object: nothing restricts the precision it carries to what a sampler with data would produce)."""
    u = float(rng.random())
    if u < 0.8:
        return float(10 ** rng.uniform(-3, 3))
    if u < 0.88:  # a precision is a number: an integer-typed one (hand-built sample, some file round trips) included
        return [4, 100, 1, np.int64(3), np.int32(7)][int(rng.integers(0, 5))]
    return float(rng.choice([1e-12, 3e-7, 1e-6, 1e6, 2.5e6, 1e9, 1e12]))


def make_sdc_theta(rng, n_samp, n_treat, D, scale=1.0, precision=None):
    from batchie.models.sparse_combo import SparseDrugComboMCMCSample

    return SparseDrugComboMCMCSample(
        W=_special_values(rng, rng.normal(0, scale, (n_samp, D))), W0=_special_values(rng, rng.normal(0, scale, (n_samp,))),
        V2=_special_values(rng, rng.normal(0, scale, (n_treat, D))), V1=_special_values(rng, rng.normal(0, scale, (n_treat, D))),
        V0=_special_values(rng, rng.normal(0, scale, (n_treat,))), alpha=float(rng.normal(0, scale)),
        precision=(float(precision) if precision is not None else _precision_value(rng)))


def make_sdci_theta(rng, n_samp, n_treat, D, lookup, scale=1.0, precision=None):
    from batchie.models.sparse_combo_interaction import SparseDrugComboInteractionMCMCSample

    return SparseDrugComboInteractionMCMCSample(
        W=_special_values(rng, rng.normal(0, scale, (n_samp, D))), V2=_special_values(rng, rng.normal(0, scale, (n_treat, D))),
        precision=(float(precision) if precision is not None else _precision_value(rng)),
        single_effect_lookup=lookup)


def full_lookup(n_samp, n_treat, rng):
    d = {}
    for c in range(n_samp):
        d[(c, -1)] = 1.0
        for t in range(n_treat):
            d[(c, t)] = float(rng.uniform(0.05, 1.2))
    # the table is a mapping: the order in which its keys were inserted (one add_observations call gives ascending
    # keys, several calls or a hand-built table do not) is not part of its value
    mode = (n_samp * 31 + n_treat) % 3
    if mode == 1:
        d = dict(reversed(list(d.items())))
    elif mode == 2:
        it = list(d.items())
        d = dict(it[1::2] + it[0::2])
    return d


def save_holder(thetas, path):
    from batchie.core import ThetaHolder

    h = ThetaHolder(n_thetas=len(thetas))
    for t in thetas:
        h.add_theta(t)
    h.save_h5(path)
    return path


def space_sizes(screen):
    from batchie.data import ExperimentSpace

    es = ExperimentSpace.from_screen(screen)
    return int(es.n_unique_samples), int(es.n_unique_treatments)


# ------------------------------------------------------------------ logical digests


def theta_params(theta):
    out = {}
    for d in (theta.private_parameters_dict(), theta.shared_parameters_dict()):
        for k, v in d.items():
            if isinstance(v, dict):
                out[k] = sorted((tuple(int(x) for x in kk), int(f64_bits(np.array([vv]))[0])) for kk, vv in v.items())
            elif isinstance(v, np.ndarray):
                out[k] = (str(v.dtype), v.shape, f64_bits(v).tolist() if v.dtype.kind == "f" else v.tolist())
            else:
                out[k] = int(f64_bits(np.array([float(v)]))[0])
    return out


def theta_digest(theta):
    return digest(theta_params(theta))


def holder_file_digest(path):
    from batchie.core import ThetaHolder

    h = ThetaHolder.load_h5(path)
    return digest([int(h.n_thetas)] + [theta_digest(t) for t in h.thetas])


def dist_file_digest(path):
    from batchie.distance_calculation import ChunkedDistanceMatrix

    m = ChunkedDistanceMatrix.load(path)
    k = m.current_index
    return digest([int(m.size), m.row_indices[:k].tolist(), m.col_indices[:k].tolist(), f64_bits(m.values[:k]).tolist()])


def score_file_digest(path):
    from batchie.scoring.main import ChunkedScoresHolder

    s = ChunkedScoresHolder.load_h5(path)
    return digest([s.plate_ids.tolist(), f64_bits(s.scores).tolist(), int(s.current_index)])


def screen_file_digest(path):
    from batchie.data import Screen
    from simkit import ref

    return ref.logical_screen_digest(Screen.load_h5(path))


# ------------------------------------------------------------------ processes

# fault `leftover.*`: the output path of a step is not always free.  An earlier attempt of the same step (killed, or run
# with other inputs before a parameter was corrected) may have left an empty file, a truncated / garbage file or a
# complete but STALE result there.  A step must produce its own output regardless.
LEFTOVERS = dict(rnd=None, rate=0.12, seen={}, fired={}, transient_rate=0.1)


def arm_leftovers(seed):
    import random as _random

    LEFTOVERS.update(rnd=_random.Random(h64("leftover", seed)), seen={}, fired={}, on_rerun=[])


def _leftover(out_path, kind):
    rnd = LEFTOVERS["rnd"]
    if rnd is None or os.path.exists(out_path) or rnd.random() >= LEFTOVERS["rate"]:
        return
    earlier = [p for p in LEFTOVERS["seen"].get(kind, []) if os.path.exists(p)]
    mode = rnd.choice(["empty", "garbage", "stale", "stale"] if earlier else ["empty", "garbage"])
    if mode == "empty":
        open(out_path, "wb").close()
    elif mode == "garbage":
        with open(out_path, "wb") as f:
            f.write(bytes(rnd.randrange(256) for _ in range(rnd.choice([1, 7, 512]))))
    else:
        shutil.copyfile(rnd.choice(earlier), out_path)
    LEFTOVERS["fired"]["leftover." + mode] = LEFTOVERS["fired"].get("leftover." + mode, 0) + 1


def torn_roundtrip(save, load, same, path_count, path_torn, u):
    """fault store.torn-save for any archive: `save(path)` is killed before its k-th dataset (k from u); the file is closed
    by unwinding.  Returns None if nothing was torn, else 'refused' / 'equal' / 'different' for what `load(path)` made of
    the remains (`same(obj)` compares with what was being saved)."""
    counter = launch.FaultPoints(everywhere=True)
    try:
        with counter:
            save(path_count)
    except Exception:
        return None
    n = counter.seen.get("h5.write", 0)
    if not n:
        return None
    fp = launch.FaultPoints({"h5.write": 1 + int(u * n) % n}, everywhere=True)
    try:
        with fp:
            save(path_torn)
    except launch.SimKilled:
        pass
    except Exception:
        return None
    if not fp.fired or not os.path.exists(path_torn):
        return None
    try:
        got = load(path_torn)
    except Exception:
        return "refused"
    try:
        return "equal" if same(got) else "different"
    except Exception:
        return "different"


def _produced(out_path, kind):
    LEFTOVERS["seen"].setdefault(kind, []).append(out_path)


def _cli(name, argv, entropy, kind):
    """Run one CLI step as a simulated process.  fault transient.h5.open: in one step out of ten, one of its first file
    opens fails once (EAGAIN: the lock is still held by the job that wrote the file).  The process may die -- the step is
    then simply run again, as a workflow engine would -- or cope; its output is judged by the caller as always."""
    rnd = LEFTOVERS["rnd"]
    if rnd is None or kind == "train" or launch.FaultPoints.active or rnd.random() >= LEFTOVERS["transient_rate"]:
        return launch.run_cli(name, argv, entropy=entropy)
    fpts = launch.FaultPoints({"h5.open": rnd.randint(1, 5)})
    try:
        with fpts:
            launch.run_cli(name, argv, entropy=entropy)
    except HarnessError:
        raise
    except Exception:
        if not fpts.fired:
            raise
        LEFTOVERS["fired"]["transient.step-died-and-was-rerun"] = LEFTOVERS["fired"].get("transient.step-died-and-was-rerun", 0) + 1
        for cb in LEFTOVERS.get("on_rerun", ()):  # what the dead attempt told the harness's recorders is discarded with it
            cb()
        launch.run_cli(name, argv, entropy=entropy)
    if fpts.fired:
        LEFTOVERS["fired"]["transient.h5.open"] = LEFTOVERS["fired"].get("transient.h5.open", 0) + 1


def p_train(screen_path, out_path, *, model, model_params, n_chains, chain_index, n_samples, n_burnin, thin, seed, entropy):
    argv = ["--data", screen_path, "--model", model, "--output", out_path, "--n-samples", n_samples,
            "--n-burnin", n_burnin, "--thin", thin, "--n-chains", n_chains, "--chain-index", chain_index, "--seed", seed]
    for k, v in model_params.items():
        argv += ["--model-param", f"{k}={v}"]
    _leftover(out_path, "train")
    _cli("train_model", argv, entropy, "train")
    _produced(out_path, "train")
    return out_path


def p_distance(screen_path, theta_paths, out_path, *, n_chunks, chunk_index, metric="MSEDistance", metric_params=None, entropy=0):
    argv = ["--data", screen_path, "--thetas"] + list(theta_paths) + [
        "--distance-metric", metric, "--n-chunks", n_chunks, "--chunk-index", chunk_index, "--output", out_path]
    for k, v in (metric_params or {}).items():
        argv += ["--distance-metric-param", f"{k}={v}"]
    _leftover(out_path, "distance")
    _cli("calculate_distance_matrix", argv, entropy, "distance")
    _produced(out_path, "distance")
    return out_path


def p_scores(screen_path, theta_paths, dist_paths, out_path, *, n_chunks, chunk_index, scorer, scorer_params=None,
             batch=None, seed=None, entropy=0):
    argv = ["--data", screen_path, "--thetas"] + list(theta_paths) + ["--distance-matrix"] + list(dist_paths) + [
        "--n-chunks", n_chunks, "--chunk-index", chunk_index, "--scorer", scorer, "--output", out_path]
    for k, v in (scorer_params or {}).items():
        argv += ["--scorer-param", f"{k}={v}"]
    if batch:
        argv += ["--batch-plate-ids"] + list(batch)
    if seed is not None:
        argv += ["--seed", seed]
    _leftover(out_path, "scores")
    _cli("calculate_scores", argv, entropy, "scores")
    _produced(out_path, "scores")
    return out_path


def p_select(screen_path, score_paths, out_path, *, policy=None, policy_params=None, batch=None, seed=None, entropy=0):
    argv = ["--data", screen_path, "--scores"] + list(score_paths) + ["--output", out_path]
    if policy:
        argv += ["--policy", policy]
        for k, v in (policy_params or {}).items():
            argv += ["--policy-param", f"{k}={v}"]
    if batch:
        argv += ["--batch-plate-id"] + list(batch)
    if seed is not None:
        argv += ["--seed", seed]
    _leftover(out_path, "select")
    _cli("select_next_plate", argv, entropy, "select")
    _produced(out_path, "select")
    with open(out_path) as f:
        return int(f.read().strip())


def p_reveal(screen_path, out_path, plate_ids, entropy=0):
    _leftover(out_path, "reveal")
    _cli("reveal_plate", ["--screen", screen_path, "--output", out_path, "--plate-id"] + list(plate_ids), entropy, "reveal")
    _produced(out_path, "reveal")
    return out_path


def p_evaluate(screen_path, theta_paths, out_path, seed=None, entropy=0):
    argv = ["--screen", screen_path, "--thetas"] + list(theta_paths) + ["--output", out_path]
    if seed is not None:
        argv += ["--seed", seed]
    _leftover(out_path, "evaluate")
    _cli("evaluate_model", argv, entropy, "evaluate")
    _produced(out_path, "evaluate")
    return out_path


def p_prepare(screen_path, train_out, test_out, *, args, seed, entropy=0):
    argv = ["--data", screen_path, "--training-output", train_out, "--test-output", test_out, "--seed", seed] + list(args)
    launch.run_cli("prepare_retrospective_simulation", argv, entropy=entropy)


def p_metadata(screen_path, out_path, entropy=0):
    import json

    launch.run_cli("extract_screen_metadata", ["--screen", screen_path, "--output", out_path], entropy=entropy)
    with open(out_path) as f:
        return json.load(f)


def inject_class(module_name, cls):
    """Make a scripted class resolvable by introspection.get_class (which walks the batchie
    package and getattr()s the class name from each module): bind it in a real module."""
    import importlib

    mod = importlib.import_module(module_name)
    setattr(mod, cls.__name__, cls)
