"""simkit kernel: seeded forks, event log + digest, scratch space, result records.

Nothing in here reads a clock or draws from a PRNG on behalf of logging; every random
choice of a run descends from one integer (the run seed) through label-forked streams.
"""
from __future__ import annotations

import hashlib
import json
import os
import random
import shutil
import struct
import tempfile
import time

import numpy as np


def h64(*parts) -> int:
    """Stable 64-bit hash of the given parts (ints / strings)."""
    m = hashlib.sha256()
    for p in parts:
        m.update(repr(p).encode("utf-8"))
        m.update(b"\x00")
    return int.from_bytes(m.digest()[:8], "big")


def run_seed_for(verif_seed: int, prop: str, engine: str, index: int) -> int:
    return h64("run", int(verif_seed), prop, engine, int(index))


class Forks:
    """Label-forked PRNG streams of one run.  Adding a draw to one stream never shifts
    another stream."""

    def __init__(self, run_seed: int):
        self.run_seed = int(run_seed)
        self._cache = {}

    def seed(self, label: str) -> int:
        return h64("fork", self.run_seed, label)

    def fork(self, label: str) -> random.Random:
        if label not in self._cache:
            self._cache[label] = random.Random(self.seed(label))
        return self._cache[label]

    def np(self, label: str) -> np.random.Generator:
        return np.random.default_rng(self.seed("np:" + label))


def sub_rng(subseed: int, *labels) -> random.Random:
    """A fresh stdlib generator for a plan step (plan steps carry their own subseed so
    that run-time-state-dependent choices replay identically after minimisation)."""
    return random.Random(h64("sub", int(subseed), *labels))


# --------------------------------------------------------------------------------------
# canonical encoding for digests


def _canon(obj, m):
    if obj is None:
        m.update(b"N")
    elif isinstance(obj, bool) or isinstance(obj, np.bool_):
        m.update(b"T" if obj else b"F")
    elif isinstance(obj, (int, np.integer)):
        m.update(b"i" + str(int(obj)).encode())
    elif isinstance(obj, (float, np.floating)):
        m.update(b"f" + struct.pack(">d", float(obj)))
    elif isinstance(obj, str):
        b = obj.encode("utf-8", "surrogatepass")
        m.update(b"s" + str(len(b)).encode() + b":" + b)
    elif isinstance(obj, bytes):
        m.update(b"b" + str(len(obj)).encode() + b":" + obj)
    elif isinstance(obj, np.ndarray):
        m.update(b"A" + str(obj.shape).encode())
        if obj.dtype.kind in "US" or obj.dtype == object:
            for x in obj.ravel().tolist():
                _canon(x if not isinstance(x, bytes) else x, m)
        elif obj.dtype.kind == "f":
            m.update(np.ascontiguousarray(obj, dtype=">f8").tobytes())
        elif obj.dtype.kind in "iu":
            m.update(np.ascontiguousarray(obj, dtype=">i8").tobytes())
        elif obj.dtype.kind == "b":
            m.update(np.ascontiguousarray(obj, dtype=np.uint8).tobytes())
        else:
            m.update(repr(obj.tolist()).encode())
    elif isinstance(obj, (list, tuple)):
        m.update(b"L" + str(len(obj)).encode())
        for x in obj:
            _canon(x, m)
    elif isinstance(obj, dict):
        m.update(b"D" + str(len(obj)).encode())
        for k in sorted(obj, key=lambda z: repr(z)):
            _canon(k, m)
            _canon(obj[k], m)
    elif isinstance(obj, (set, frozenset)):
        _canon(sorted(obj, key=lambda z: repr(z)), m)
    else:
        m.update(b"R" + repr(obj).encode())


def digest(obj) -> str:
    m = hashlib.sha256()
    _canon(obj, m)
    return m.hexdigest()[:24]


def f64_bits(arr) -> np.ndarray:
    """Bit pattern of a float64 array (NaN payloads and signed zeros preserved)."""
    return np.ascontiguousarray(np.asarray(arr, dtype=np.float64)).view(np.uint64)


class EventLog:
    """Canonical event log of one run.  Events are tuples of plain values; no paths, no
    times, no object ids.  The digest covers every scheduling decision, fault decision,
    artefact digest and oracle evaluation that the engine chooses to log."""

    def __init__(self, keep: int = 400):
        self._m = hashlib.sha256()
        self.n = 0
        self.keep = keep
        self.head = []

    def ev(self, *event):
        _canon(event, self._m)
        self.n += 1
        if len(self.head) < self.keep:
            self.head.append(_jsonable(event))

    def digest(self) -> str:
        return self._m.hexdigest()[:24]


def _jsonable(x):
    if isinstance(x, (list, tuple)):
        return [_jsonable(y) for y in x]
    if isinstance(x, dict):
        return {str(k): _jsonable(v) for k, v in x.items()}
    if isinstance(x, (np.integer,)):
        return int(x)
    if isinstance(x, (np.floating,)):
        return float(x)
    if isinstance(x, np.bool_):
        return bool(x)
    if isinstance(x, np.ndarray):
        return _jsonable(x.tolist())
    if isinstance(x, (set, frozenset)):
        return sorted(_jsonable(y) for y in x)
    if isinstance(x, bytes):
        return x.hex()
    return x


jsonable = _jsonable


# --------------------------------------------------------------------------------------
# scratch space (outside /repo and /verif, removed after every run)


def scratch_root() -> str:
    root = os.environ.get("VERIF_SCRATCH")
    if not root:
        root = "/dev/shm" if os.path.isdir("/dev/shm") else tempfile.gettempdir()
    return root


class Scratch:
    def __init__(self, tag="run"):
        self.tag = tag
        self.path = None
        self._n = 0

    _counter = 0

    def __enter__(self):
        # own naming (pid + counter): the OS entropy seam makes tempfile's random names collide across workers
        while True:
            Scratch._counter += 1
            path = os.path.join(scratch_root(), f"verif-{self.tag}-{os.getpid()}-{Scratch._counter}")
            try:
                os.mkdir(path, 0o700)
                break
            except FileExistsError:
                continue
        self.path = path
        return self

    def __exit__(self, *exc):
        shutil.rmtree(self.path, ignore_errors=True)
        return False

    def file(self, name="f.h5") -> str:
        self._n += 1
        return os.path.join(self.path, f"{self._n:05d}_{name}")

    def dir(self, name="d") -> str:
        self._n += 1
        p = os.path.join(self.path, f"{self._n:05d}_{name}")
        os.makedirs(p)
        return p


def sweep_stale_scratch():
    """Scratch trees are named by the pid that made them; a worker killed by its run timeout cannot remove its own.
    Trees whose process no longer exists are removed when the next check starts."""
    root = scratch_root()
    try:
        names = os.listdir(root)
    except OSError:
        return 0
    n = 0
    for name in names:
        parts = name.split("-")
        if len(parts) < 4 or parts[0] != "verif" or not parts[-1].isdigit() or not parts[-2].isdigit():
            continue
        pid = int(parts[-2])
        if os.path.exists(f"/proc/{pid}"):
            continue
        try:  # and old enough that no check in another process namespace can still be using it
            if time.time() - os.stat(os.path.join(root, name)).st_mtime < 3 * 3600:
                continue
        except OSError:
            continue
        shutil.rmtree(os.path.join(root, name), ignore_errors=True)
        n += 1
    return n


# --------------------------------------------------------------------------------------
# results


class Violation(dict):
    """oracle_id: which oracle fired; signature: oracle id plus the specific trigger
    (call site / operation / state class) used for known-finding matching."""

    def __init__(self, prop, oracle_id, signature, message, detail=None):
        super().__init__(
            property=prop,
            oracle_id=oracle_id,
            signature=signature,
            message=str(message)[:2000],
            detail=_jsonable(detail) if detail is not None else None,
        )


class RunStats:
    """Per-run counters that end up in the evidence file."""

    def __init__(self):
        self.steps = 0
        self.faults = {}
        self.probes = {}
        self.oracle_evals = 0
        self.keys = set()  # abstraction-function values reached (non-trivial only)
        self.nontrivial = False

    def fault(self, kind, n=1):
        self.faults[kind] = self.faults.get(kind, 0) + n

    def probe(self, name, n=1):
        self.probes[name] = self.probes.get(name, 0) + n

    def key(self, *k):
        self.keys.add(digest(k)[:16])
        self.nontrivial = True

    def to_dict(self):
        return dict(
            steps=self.steps,
            faults=self.faults,
            probes=self.probes,
            oracle_evals=self.oracle_evals,
            keys=sorted(self.keys),
            nontrivial=self.nontrivial,
        )


class HarnessError(Exception):
    """A problem of the machinery (never a VIOLATION)."""


def dump_json(obj, path):
    tmp = path + ".tmp"
    with open(tmp, "w") as f:
        json.dump(_jsonable(obj), f, indent=1, sort_keys=True, allow_nan=True)
    os.replace(tmp, path)
