"""In-process launcher for batchie's CLI mains (the 'processes' of the simulated workflow)
and the entropy seam.  A launch gets fresh sys.argv and fresh, simulator-chosen entropy;
nothing but files crosses a launch boundary."""
from __future__ import annotations

import contextlib
import importlib
import io
import logging
import os
import random
import sys
import warnings

import numpy as np

from simkit.kernel import HarnessError, h64

_QUIET_DONE = False


def quiet():
    """Logs are not an observable of any property; silence them once per process."""
    global _QUIET_DONE
    if _QUIET_DONE:
        return
    _QUIET_DONE = True
    logging.getLogger("batchie").setLevel(logging.CRITICAL + 1)
    logging.getLogger("batchie").propagate = False
    logging.disable(logging.CRITICAL)
    warnings.filterwarnings("ignore")
    from batchie import log_config

    log_config.configure_logging = lambda args: None


def preload_cli():
    """The package walk of introspection.get_class imports torch/pyro (~8 s): do it once in
    the parent before forking workers."""
    quiet()
    from batchie import introspection
    from batchie.core import Scorer

    with contextlib.redirect_stderr(io.StringIO()):
        introspection.get_class("batchie", "SizeScorer", Scorer)
    quiet()


_OS_ENTROPY = {"seed": 0, "n": 0}


def _fake_urandom(n):
    """OS entropy seam: os.urandom / secrets / SystemRandom / numpy SeedSequence(None) are served
    from a simulator-chosen stream (one per simulated launch)."""
    import hashlib

    out = b""
    while len(out) < n:
        _OS_ENTROPY["n"] += 1
        out += hashlib.sha256(f"urandom:{_OS_ENTROPY['seed']}:{_OS_ENTROPY['n']}".encode()).digest()
    return out[:n]


def purge_batchie():
    """Simulated process boundary for module-level state of the code under test: drop every batchie
    module so that the next import re-executes it.  Called at the start of every simulated run (each run
    is one hermetic 'machine': caches in module globals cannot leak from an earlier run of the same
    worker into this one, which would make a finding irreproducible from its plan)."""
    for k in [k for k in sys.modules if k == "batchie" or k.startswith("batchie.")]:
        del sys.modules[k]


def set_entropy(seed: int):
    """Process-start entropy of a simulated launch: global numpy and stdlib state, the
    OS entropy pool and the thread schedule."""
    np.random.seed(h64("np-global", seed) % (2**32))
    random.seed(h64("py-global", seed))
    _OS_ENTROPY["seed"], _OS_ENTROPY["n"] = seed, 0
    random._urandom = _fake_urandom
    os.urandom = _fake_urandom
    install_sim_threads()
    SIM_THREADS["rng"] = random.Random(h64("thread-schedule", seed))


# --------------------------------------------------------------------------------------
# thread seam: who runs next is the simulator's decision
#
# The shipped code starts no threads.  A change that does (overlapping sub-groups on a pool "because numpy releases
# the GIL") makes the result depend on which task reaches shared state first.  The simulator owns that choice: the
# pool classes are replaced by a cooperative pool that runs the submitted tasks ONE AT A TIME, each to completion, in
# an order drawn from the run's schedule stream.  One seed is one exactly repeatable interleaving (at task
# granularity), and the two members of a twin run get different ones.

SIM_THREADS = dict(rng=random.Random(0), installed=False, tasks=0)


class _SimFuture:
    def __init__(self, pool, fn, args, kw):
        self.pool, self.fn, self.args, self.kw = pool, fn, args, kw
        self.done_, self.value, self.exc = False, None, None

    def _run(self):
        if self.done_:
            return
        SIM_THREADS["tasks"] += 1
        self.finished_at = SIM_THREADS["tasks"]  # completion order = the order the simulator ran the tasks in
        try:
            self.value = self.fn(*self.args, **self.kw)
        except BaseException as e:  # noqa: BLE001 - delivered to whoever asks for the result, like a real future
            self.exc = e
        self.done_ = True

    def result(self, timeout=None):
        self.pool._drain()
        if self.exc is not None:
            raise self.exc
        return self.value

    def exception(self, timeout=None):
        self.pool._drain()
        return self.exc

    def done(self):
        return self.done_

    def cancel(self):
        return False

    def add_done_callback(self, fn):
        self.pool._drain()
        fn(self)


class SimThreadPool:
    def __init__(self, max_workers=None, *a, **kw):
        self._pending = []

    def submit(self, fn, *args, **kw):
        f = _SimFuture(self, fn, args, kw)
        self._pending.append(f)
        return f

    def _drain(self):
        while self._pending:
            i = SIM_THREADS["rng"].randrange(len(self._pending))
            self._pending.pop(i)._run()

    def map(self, fn, *iterables, timeout=None, chunksize=1):
        futs = [self.submit(fn, *args) for args in zip(*iterables)]

        def gen():
            for f in futs:
                yield f.result()
        return gen()

    def shutdown(self, wait=True, cancel_futures=False):
        self._drain()

    def __enter__(self):
        return self

    def __exit__(self, *exc):
        self._drain()
        return False

    # multiprocessing.pool.ThreadPool flavour
    def starmap(self, fn, iterable, chunksize=None):
        futs = [self.submit(fn, *args) for args in iterable]
        return [f.result() for f in futs]

    def imap(self, fn, iterable, chunksize=1):
        return self.map(fn, iterable)

    imap_unordered = imap

    def apply_async(self, fn, args=(), kwds=None):
        f = self.submit(fn, *args, **(kwds or {}))
        f.get = f.result
        return f

    def close(self):
        pass

    def join(self):
        self._drain()

    def terminate(self):
        self._pending = []


class _SimThreadPoolMp(SimThreadPool):
    def __init__(self, processes=None, *a, **kw):
        super().__init__()

    def map(self, fn, iterable, chunksize=None):
        return list(SimThreadPool.map(self, fn, iterable))


def _sim_as_completed(fs, timeout=None):
    """concurrent.futures.as_completed for simulated futures: everything pending is run (in the seeded order), then
    the futures come back in the order in which they finished."""
    fs = list(fs)
    sim = [f for f in fs if isinstance(f, _SimFuture)]
    if len(sim) != len(fs):
        return _REAL["as_completed"](fs, timeout)
    for f in sim:
        f.pool._drain()
    return iter(sorted(sim, key=lambda f: f.finished_at))


def _sim_wait(fs, timeout=None, return_when="ALL_COMPLETED"):
    fs = list(fs)
    sim = [f for f in fs if isinstance(f, _SimFuture)]
    if len(sim) != len(fs):
        return _REAL["wait"](fs, timeout, return_when)
    for f in sim:
        f.pool._drain()
    import collections

    return collections.namedtuple("DoneAndNotDoneFutures", "done not_done")(set(sim), set())


_REAL = {}


def install_sim_threads():
    if SIM_THREADS["installed"]:
        return
    import concurrent.futures as _cf
    import concurrent.futures._base as _cfb
    import concurrent.futures.thread as _cft
    import multiprocessing.pool as _mpp

    _cf.ThreadPoolExecutor = SimThreadPool
    _cft.ThreadPoolExecutor = SimThreadPool
    _REAL["as_completed"], _REAL["wait"] = _cfb.as_completed, _cfb.wait
    _cf.as_completed = _cfb.as_completed = _sim_as_completed
    _cf.wait = _cfb.wait = _sim_wait
    _mpp.ThreadPool = _SimThreadPoolMp
    try:
        import multiprocessing.dummy as _mpd

        _mpd.Pool = lambda processes=None, *a, **kw: _SimThreadPoolMp(processes)
    except Exception:
        pass
    SIM_THREADS["installed"] = True


# --------------------------------------------------------------------------------------
# process-environment seam: wall clock, process id, directory listing order
#
# Nothing in the shipped code reads them to make a decision.  A change that does ("seed from the clock when none is
# given", "temp file named after the pid", "take the first file glob returns") makes the output depend on when and
# where the process ran.  Inside a SimEnv these are the simulator's: two launches with different environment seeds see
# different clocks, pids and listing orders, and one seed is one exactly repeatable environment.

class SimEnv:
    def __init__(self, seed: int, frozen_clock: bool = False):
        self.frozen_clock = frozen_clock  # a coarse clock: every reading inside the environment is the same instant
        self.rnd = random.Random(h64("process-env", seed))
        self.reads = {}
        self._saved = []

    def _count(self, what):
        self.reads[what] = self.reads.get(what, 0) + 1

    def _patch(self, obj, name, new):
        self._saved.append((obj, name, getattr(obj, name)))
        setattr(obj, name, new)

    def __enter__(self):
        import datetime as _dt
        import glob as _glob
        import time as _time

        env = self
        t0 = 1.5e9 + self.rnd.randrange(2 * 10**8) + self.rnd.random()
        tick = [0]

        def now():
            if not env.frozen_clock:
                tick[0] += 1
            return t0 + tick[0] * 0.0137

        def clock(name, scale, as_int):
            def f():
                env._count("clock")
                v = now() * scale
                return int(v) if as_int else v
            f.__name__ = name
            return f

        for name, scale, as_int in (("time", 1, False), ("time_ns", 10**9, True), ("monotonic", 1, False),
                                    ("monotonic_ns", 10**9, True), ("perf_counter", 1, False), ("perf_counter_ns", 10**9, True)):
            self._patch(_time, name, clock(name, scale, as_int))
        real_dt = _dt.datetime

        class SimDateTime(real_dt):
            @classmethod
            def now(cls, tz=None):
                env._count("clock")
                return real_dt.fromtimestamp(now(), tz)

            @classmethod
            def utcnow(cls):
                env._count("clock")
                return real_dt.utcfromtimestamp(now())

            @classmethod
            def today(cls):
                env._count("clock")
                return real_dt.fromtimestamp(now())

        self._patch(_dt, "datetime", SimDateTime)
        pid = 2000 + self.rnd.randrange(30000)

        def getpid():
            env._count("pid")
            return pid

        self._patch(os, "getpid", getpid)
        real_listdir, real_glob, real_iglob = os.listdir, _glob.glob, _glob.iglob
        order = random.Random(self.rnd.randrange(2**62))

        def shuffled(xs):
            xs = sorted(xs)
            order.shuffle(xs)
            return xs

        def listdir(path="."):
            env._count("listing")
            return shuffled(real_listdir(path))

        def glob_(*a, **k):
            env._count("listing")
            return shuffled(real_glob(*a, **k))

        def iglob_(*a, **k):
            env._count("listing")
            return iter(shuffled(list(real_iglob(*a, **k))))

        self._patch(os, "listdir", listdir)
        self._patch(_glob, "glob", glob_)
        self._patch(_glob, "iglob", iglob_)
        return self

    def __exit__(self, *exc):
        for obj, name, orig in reversed(self._saved):
            setattr(obj, name, orig)
        self._saved = []
        return False


# --------------------------------------------------------------------------------------
# fault points inside a step: the simulator's to fire
#
#   h5.open    opening an HDF5 file fails once with OSError(EAGAIN) ("unable to lock file": a transient I/O error)
#   h5.write   the process is killed while a file is being written: the k-th dataset creation never happens (the
#              file is closed as the interpreter unwinds: well-formed, but holding only what was written so far)
#   model.step one Gibbs step of a shipped model fails with numpy.linalg.LinAlgError (a failed Cholesky)
#
# A step hit by a transient fault may fail; if it reports success its output must be what the fault-free step gives.

class SimKilled(BaseException):
    pass


def _inside_simulated_process():
    f = sys._getframe(2)
    here = os.path.abspath(__file__)
    while f is not None:
        if f.f_code.co_name == "run_cli" and os.path.abspath(f.f_code.co_filename) == here:
            return True
        f = f.f_back
    return False


class FaultPoints:
    def __init__(self, fire=None, everywhere=False):
        self.everywhere = everywhere  # also count file accesses made outside a simulated CLI process
        self.fire = dict(fire or {})  # kind -> 1-based index of the occurrence that fails
        self.seen = {}
        self.fired = []
        self._saved = []

    def _hit(self, kind):
        if kind.startswith("h5.") and not self.everywhere and not _inside_simulated_process():
            return False  # the harness reading a file back to judge it is not part of the step
        self.seen[kind] = self.seen.get(kind, 0) + 1
        if self.fire.get(kind) == self.seen[kind]:
            self.fired.append(kind)
            return True
        return False

    active = 0

    def __enter__(self):
        import errno

        import h5py

        FaultPoints.active += 1
        fp = self
        real_init = h5py.File.__init__
        real_create = h5py.Group.create_dataset

        def file_init(self_, name, mode="r", *a, **k):
            # (h5py also builds File objects around an already open id, e.g. for dataset.file: not an open)
            if isinstance(name, (str, bytes, os.PathLike)) and fp._hit("h5.open"):
                raise OSError(errno.EAGAIN, f"Unable to synchronously open file (unable to lock file, errno = 11, error message = 'Resource temporarily unavailable'): {name}")
            return real_init(self_, name, mode, *a, **k)

        def create_dataset(self_, *a, **k):
            if fp._hit("h5.write"):
                raise SimKilled("killed while writing")
            return real_create(self_, *a, **k)

        self._saved += [(h5py.File, "__init__", real_init), (h5py.Group, "create_dataset", real_create)]
        h5py.File.__init__ = file_init
        h5py.Group.create_dataset = create_dataset
        for modname, clsname in (("batchie.models.sparse_combo", "SparseDrugCombo"),
                                 ("batchie.models.sparse_combo_interaction", "SparseDrugComboInteraction")):
            try:
                mod = importlib.import_module(modname)
            except ImportError:
                mod = None
            cls = getattr(mod, clsname, None) if mod else None
            if cls is None or "step" not in cls.__dict__:
                continue
            real_step = cls.__dict__["step"]

            def step(self_, *a, _real=real_step, **k):
                if fp._hit("model.step"):
                    raise np.linalg.LinAlgError("Matrix is not positive definite")
                return _real(self_, *a, **k)

            self._saved.append((cls, "step", real_step))
            cls.step = step
        return self

    def __exit__(self, *exc):
        for obj, name, orig in reversed(self._saved):
            setattr(obj, name, orig)
        self._saved = []
        FaultPoints.active -= 1
        return False


def global_state_digest():
    st = np.random.get_state()
    return h64(st[0], st[1].tobytes(), st[2], st[3], st[4], repr(random.getstate()))


def run_cli(name: str, argv: list, entropy: int | None = None):
    """Run batchie.cli.<name>.main() as a simulated process."""
    quiet()
    mod = importlib.import_module("batchie.cli." + name)
    importlib.import_module("batchie.log_config").configure_logging = lambda args: None
    if hasattr(mod, "log_config"):
        mod.log_config.configure_logging = lambda args: None
    old_argv = sys.argv
    sys.argv = [name] + [str(a) for a in argv]
    if entropy is not None:
        set_entropy(entropy)
    err = io.StringIO()
    import time as _time

    real_sleep = _time.sleep

    def sim_sleep(seconds):  # simulated time: a process that sleeps (a retry delay) costs nothing real
        SIM_SLEEP["calls"] += 1
        SIM_SLEEP["seconds"] += float(seconds)

    _time.sleep = sim_sleep
    # the process environment of a cluster job: scheduler / launcher variables the program was never told about are set
    # to arbitrary small values (job arrays, MPI ranks); nothing the step is given on its command line may yield to them
    erng = random.Random(h64("job-env", name, entropy if entropy is not None else 0, len(argv)))
    job_env = {k: str(erng.randrange(0, 8)) for k in erng.sample(SCHEDULER_VARS, erng.randint(0, 3))}
    saved_env = {k: os.environ.get(k) for k in job_env}
    os.environ.update(job_env)
    try:
        with contextlib.redirect_stderr(err):
            mod.main()
    except SystemExit as e:
        if e.code not in (0, None):
            raise HarnessError(f"CLI {name} rejected argv {argv}: {err.getvalue()[-500:]}")
    finally:
        sys.argv = old_argv
        _time.sleep = real_sleep
        for k, v in saved_env.items():
            if v is None:
                os.environ.pop(k, None)
            else:
                os.environ[k] = v


SIM_SLEEP = dict(calls=0, seconds=0.0)
SCHEDULER_VARS = ["SLURM_ARRAY_TASK_ID", "SLURM_PROCID", "SLURM_LOCALID", "PBS_ARRAYID", "PBS_ARRAY_INDEX", "LSB_JOBINDEX",
                  "SGE_TASK_ID", "OMPI_COMM_WORLD_RANK", "PMI_RANK", "RANK", "LOCAL_RANK", "WORLD_SIZE", "JOB_COMPLETION_INDEX"]


class SeedlessRngTrap:
    """Entropy seam for numpy.random.default_rng(): a call without a seed is logged with
    its call site and served from a simulator-chosen stream instead of OS entropy."""

    def __init__(self, entropy_seed: int):
        self.entropy_seed = entropy_seed
        self.calls = []
        self._orig = None
        self._n = 0

    def __enter__(self):
        self._orig = np.random.default_rng
        orig = self._orig
        trap = self

        def default_rng(seed=None):
            if seed is None:
                f = sys._getframe(1)
                site = f"{os.path.basename(os.path.dirname(f.f_code.co_filename))}/" \
                       f"{os.path.basename(f.f_code.co_filename)}:{f.f_code.co_name}"
                trap.calls.append(site)
                trap._n += 1
                return orig(h64("seedless", trap.entropy_seed, trap._n))
            return orig(seed)

        np.random.default_rng = default_rng
        import numpy.random as npr

        npr.default_rng = default_rng
        return self

    def __exit__(self, *exc):
        np.random.default_rng = self._orig
        import numpy.random as npr

        npr.default_rng = self._orig
        return False
