"""In-process launcher for batchie's CLI mains (the 'processes' of the simulated workflow)
and the entropy seam.  A launch gets fresh sys.argv and fresh, simulator-chosen entropy;
nothing but files crosses a launch boundary."""
from __future__ import annotations

import contextlib
import importlib
import io
import logging
import os
import random
import sys
import warnings

import numpy as np

from simkit.kernel import HarnessError, h64

_QUIET_DONE = False


def quiet():
    """Logs are not an observable of any property; silence them once per process."""
    global _QUIET_DONE
    if _QUIET_DONE:
        return
    _QUIET_DONE = True
    logging.getLogger("batchie").setLevel(logging.CRITICAL + 1)
    logging.getLogger("batchie").propagate = False
    logging.disable(logging.CRITICAL)
    warnings.filterwarnings("ignore")
    from batchie import log_config

    log_config.configure_logging = lambda args: None


def preload_cli():
    """The package walk of introspection.get_class imports torch/pyro (~8 s): do it once in
    the parent before forking workers."""
    quiet()
    from batchie import introspection
    from batchie.core import Scorer

    with contextlib.redirect_stderr(io.StringIO()):
        introspection.get_class("batchie", "SizeScorer", Scorer)
    quiet()


_OS_ENTROPY = {"seed": 0, "n": 0}


def _fake_urandom(n):
    """OS entropy seam: os.urandom / secrets / SystemRandom / numpy SeedSequence(None) are served
    from a simulator-chosen stream (one per simulated launch)."""
    import hashlib

    out = b""
    while len(out) < n:
        _OS_ENTROPY["n"] += 1
        out += hashlib.sha256(f"urandom:{_OS_ENTROPY['seed']}:{_OS_ENTROPY['n']}".encode()).digest()
    return out[:n]


def purge_batchie():
    """Simulated process boundary for module-level state of the code under test: drop every batchie
    module so that the next import re-executes it.  Called at the start of every simulated run (each run
    is one hermetic 'machine': caches in module globals cannot leak from an earlier run of the same
    worker into this one, which would make a finding irreproducible from its plan)."""
    for k in [k for k in sys.modules if k == "batchie" or k.startswith("batchie.")]:
        del sys.modules[k]


def set_entropy(seed: int):
    """Process-start entropy of a simulated launch: global numpy and stdlib state and the
    OS entropy pool."""
    np.random.seed(h64("np-global", seed) % (2**32))
    random.seed(h64("py-global", seed))
    _OS_ENTROPY["seed"], _OS_ENTROPY["n"] = seed, 0
    random._urandom = _fake_urandom
    os.urandom = _fake_urandom


def global_state_digest():
    st = np.random.get_state()
    return h64(st[0], st[1].tobytes(), st[2], st[3], st[4], repr(random.getstate()))


def run_cli(name: str, argv: list, entropy: int | None = None):
    """Run batchie.cli.<name>.main() as a simulated process."""
    quiet()
    mod = importlib.import_module("batchie.cli." + name)
    importlib.import_module("batchie.log_config").configure_logging = lambda args: None
    if hasattr(mod, "log_config"):
        mod.log_config.configure_logging = lambda args: None
    old_argv = sys.argv
    sys.argv = [name] + [str(a) for a in argv]
    if entropy is not None:
        set_entropy(entropy)
    err = io.StringIO()
    try:
        with contextlib.redirect_stderr(err):
            mod.main()
    except SystemExit as e:
        if e.code not in (0, None):
            raise HarnessError(f"CLI {name} rejected argv {argv}: {err.getvalue()[-500:]}")
    finally:
        sys.argv = old_argv


class SeedlessRngTrap:
    """Entropy seam for numpy.random.default_rng(): a call without a seed is logged with
    its call site and served from a simulator-chosen stream instead of OS entropy."""

    def __init__(self, entropy_seed: int):
        self.entropy_seed = entropy_seed
        self.calls = []
        self._orig = None
        self._n = 0

    def __enter__(self):
        self._orig = np.random.default_rng
        orig = self._orig
        trap = self

        def default_rng(seed=None):
            if seed is None:
                f = sys._getframe(1)
                site = f"{os.path.basename(os.path.dirname(f.f_code.co_filename))}/" \
                       f"{os.path.basename(f.f_code.co_filename)}:{f.f_code.co_name}"
                trap.calls.append(site)
                trap._n += 1
                return orig(h64("seedless", trap.entropy_seed, trap._n))
            return orig(seed)

        np.random.default_rng = default_rng
        import numpy.random as npr

        npr.default_rng = default_rng
        return self

    def __exit__(self, *exc):
        np.random.default_rng = self._orig
        import numpy.random as npr

        npr.default_rng = self._orig
        return False
