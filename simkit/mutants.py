"""Sensitivity self-test: apply one small semantic mutant at a time to a scratch copy of the
repository (outside /repo and /verif), point the check at it through VERIF_REPO, and require a
VIOLATION line with the right property id.  The copy is removed after each mutant."""
from __future__ import annotations

import json
import os
import shutil
import subprocess
import sys
import tempfile
import time

from simkit import kernel
from simkit.runner import VERIF_DIR, repo_dir


def load_table():
    sys.path.insert(0, VERIF_DIR)
    import mutants_table

    return mutants_table.MUTANTS


def make_copy():
    root = tempfile.mkdtemp(prefix="verif-mut-", dir=kernel.scratch_root())
    src = repo_dir()
    shutil.copytree(os.path.join(src, "src"), os.path.join(root, "src"),
                    ignore=shutil.ignore_patterns("__pycache__", "*.egg-info"))
    shutil.copytree(os.path.join(src, "nextflow"), os.path.join(root, "nextflow"),
                    ignore=shutil.ignore_patterns("__pycache__"))
    for f in ("main.nf", "nextflow.config", "pyproject.toml", "setup.py"):
        if os.path.exists(os.path.join(src, f)):
            shutil.copy(os.path.join(src, f), os.path.join(root, f))
    return root


def apply(root, m):
    path = os.path.join(root, m["file"])
    s = open(path).read()
    cnt = s.count(m["old"])
    want = m.get("count", 1)
    if cnt < 1 or (want != "all" and cnt != want):
        raise kernel.HarnessError(f"mutant {m['name']}: pattern occurs {cnt}x in {m['file']} (expected {want})")
    s = s.replace(m["old"], m["new"])
    open(path, "w").write(s)
    for extra in m.get("also", []):
        apply(root, dict(extra, name=m["name"]))


def run_check_on(root, prop, tier, extra_env=None, runs=None):
    env = dict(os.environ)
    env.pop("VERIF_PINNED", None)
    env["VERIF_REPO"] = root
    env["VERIF_MIN_BUDGET"] = env.get("VERIF_MIN_BUDGET", "20")
    env["VERIF_MAX_REPORTS"] = "1"
    if extra_env:
        env.update(extra_env)
    t0 = time.time()
    p = subprocess.run([os.path.join(VERIF_DIR, "vcheck"), prop, "--tier", tier, "--no-evidence"] + (["--runs", str(runs)] if runs else []),
                       capture_output=True, text=True, env=env, cwd=VERIF_DIR)
    return p.returncode, p.stdout, p.stderr, time.time() - t0


def run_tests_on(root, files):
    env = dict(os.environ)
    env["PYTHONPATH"] = os.path.join(root, "src")
    env.pop("VERIF_PINNED", None)
    p = subprocess.run([sys.executable, "-m", "pytest", "-q", "-x", "-p", "no:cacheprovider"] +
                       [os.path.join(root, f) for f in files],
                       capture_output=True, text=True, env=env, cwd=root)
    tail = p.stdout.strip().splitlines()[-1] if p.stdout.strip() else p.stderr[-200:]
    return p.returncode, tail


def run(props, tier="quick", only=None, with_tests=False):
    table = load_table()
    rows = []
    bad = 0
    for m in table:
        if m["prop"] not in props:
            continue
        if only and not any(o in m["name"] for o in only.split(",")):
            continue
        root = make_copy()
        try:
            apply(root, m)
            rc, out, err, wall = run_check_on(root, m["prop"], m.get("tier", tier), runs=m.get("runs"))
            hit = rc == 1 and f"VIOLATION property={m['prop']}" in out
            first = ""
            steps = ""
            for line in out.splitlines():
                if line.startswith("violation:") and not first:
                    first = line[len("violation:"):].strip()[:140]
                if "minimised_steps=" in line and not steps:
                    steps = line.split("minimised_steps=")[1].split()[0]
            tests = ""
            if with_tests and m.get("tests"):
                trc, tail = run_tests_on(root, m["tests"])
                tests = "suite-green" if trc == 0 else f"suite-RED ({tail})"
            status = "caught" if hit else ("HARNESS-ERROR" if rc == 2 else "MISSED")
            if m.get("expect") == "equivalent":
                # the property still holds under this change: the check must stay quiet
                status = "quiet-as-required" if rc == 0 else "FALSE-ALARM"
                hit = rc == 0
            if not hit:
                bad += 1
                print(out[-1500:])
                print(err[-800:])
            print(f"mutant {m['prop']} {m['name']}: {status} in {wall:.0f}s steps={steps} {tests} :: {first}")
            rows.append(dict(prop=m["prop"], name=m["name"], what=m["what"], status=status, wall=round(wall, 1),
                             minimised_steps=steps, oracle=first, tests=tests, tier=tier))
        finally:
            shutil.rmtree(root, ignore_errors=True)
    out_path = os.path.join(VERIF_DIR, "sensitivity_last.json")
    prev = []
    if os.path.exists(out_path):
        try:
            prev = json.load(open(out_path))
        except Exception:
            prev = []
    keep = [r for r in prev if not any(r["prop"] == x["prop"] and r["name"] == x["name"] for x in rows)]
    kernel.dump_json(sorted(keep + rows, key=lambda r: (r["prop"], r["name"])), out_path)
    print(f"mutants: {len(rows) - bad}/{len(rows)} caught")
    return 0 if bad == 0 else 1
