"""Runner: pinned environment, parallel seeded runs, known findings, minimisation,
replay files, evidence files.  Exit codes: 0 clean (known findings allowed), 1 violation,
2 harness error."""
from __future__ import annotations

import argparse
import concurrent.futures as cf
import faulthandler
import importlib
import json
import multiprocessing as mp
import os
import subprocess
import sys
import time
import traceback

from simkit import kernel
from simkit.kernel import HarnessError

VERIF_DIR = os.path.dirname(os.path.dirname(os.path.abspath(__file__)))
PINNED_ENV = {
    "PYTHONHASHSEED": "0",
    "OMP_NUM_THREADS": "1",
    "OPENBLAS_NUM_THREADS": "1",
    "MKL_NUM_THREADS": "1",
    "NUMEXPR_NUM_THREADS": "1",
    "VERIF_PINNED": "1",
}

# property id -> (module, engine name)
REGISTRY = {
    "C01": "engines.lifesim",
    "C02": "engines.lifesim",
    "C03": "engines.lifesim",
    "C12": "engines.lifesim",
    "C14": "engines.viewsim",
    "C11": "engines.prepsim",
    "C13": "engines.prepsim",
    "C07": "engines.distsim",
    "C06": "engines.scoresim",
    "C05": "engines.dbalsim",
    "C10": "engines.holdersim",
    "C09": "engines.predsim",
    "C04": "engines.twinsim",
    "C18": "engines.twinsim",
    "C17": "engines.samplesim",
    "C16": "engines.batchsim",
    "C08": "engines.gibbssim",
    "C19": "engines.orchsim",
}


def repo_dir() -> str:
    return os.path.abspath(os.environ.get("VERIF_REPO", "/repo"))


def ensure_pinned_env():
    """Re-exec once with the pinned environment (hash seed, BLAS threads, PYTHONPATH
    pointing at the working tree under test)."""
    if os.environ.get("VERIF_PINNED") == "1":
        return
    env = dict(os.environ)
    for k, v in PINNED_ENV.items():
        if k == "PYTHONHASHSEED" and "VERIF_HASHSEED" in env:
            env[k] = env["VERIF_HASHSEED"]
        else:
            env[k] = v
    src = os.path.join(repo_dir(), "src")
    env["PYTHONPATH"] = os.pathsep.join(
        [src, VERIF_DIR] + ([env["PYTHONPATH"]] if env.get("PYTHONPATH") else [])
    )
    env["PYTHONDONTWRITEBYTECODE"] = "1"
    os.execve(sys.executable, [sys.executable] + sys.argv, env)


def check_repo_import():
    import batchie

    src = os.path.join(repo_dir(), "src")
    got = os.path.abspath(os.path.dirname(batchie.__file__))
    if not got.startswith(os.path.abspath(src)):
        raise HarnessError(f"batchie imported from {got}, expected under {src}")


def load_engine(prop):
    if prop not in REGISTRY:
        raise HarnessError(f"no check registered for {prop}")
    return importlib.import_module(REGISTRY[prop])


# --------------------------------------------------------------------------------------
# known findings


def load_known():
    path = os.path.join(VERIF_DIR, "known_findings.json")
    if not os.path.exists(path):
        return []
    with open(path) as f:
        return json.load(f)["findings"]


def match_known(known, prop, signature):
    for k in known:
        if k.get("status") == "open" and k["property"] == prop and k["signature"] == signature:
            return k
    return None


# --------------------------------------------------------------------------------------
# worker side

_W = {}


def _worker_init(prop, tier, verif_seed, per_run_timeout):
    _W.update(prop=prop, tier=tier, seed=verif_seed, timeout=per_run_timeout)
    _W["engine"] = load_engine(prop)


def run_one(engine, prop, tier, verif_seed, index, plan=None):
    """Generate (unless given) and execute one plan.  Returns a small summary dict."""
    spec = engine.SPEC[prop]
    rs = kernel.run_seed_for(verif_seed, prop, spec["engine"], index)
    if plan is None:
        plan = engine.gen_plan(prop, rs, tier)
    res = hermetic_execute(engine, prop, plan)
    res["index"] = index
    res["run_seed"] = rs
    res["plan"] = plan
    return res


def hermetic_execute(engine, prop, plan):
    """Every execution starts from fresh module state of the code under test."""
    from simkit import launch

    launch.purge_batchie()
    launch.install_sim_threads()  # thread pools are the simulator's: tasks run one at a time in a seeded order
    launch.SIM_THREADS["rng"].seed(0)
    from simkit import pipe

    pipe.arm_leftovers(kernel.digest(plan))  # fault leftover.*: stale / empty / garbage files at a step's output path
    if hasattr(engine, "reset_state"):
        engine.reset_state()
    try:
        res = engine.execute(prop, plan)
        for k, n in pipe.LEFTOVERS["fired"].items():
            res["stats"]["faults"][k] = res["stats"]["faults"].get(k, 0) + n
        return res
    except HarnessError:
        raise
    except Exception as e:
        # An exception that ORIGINATES inside the code under test (innermost frame in the repository) while an
        # engine was evaluating an oracle is a finding about that code, not a failure of the machinery: the
        # engines guard the operations they expect to fail, so what arrives here is a crash on a path that works
        # on the unchanged tree.  An exception whose innermost frame is harness code stays a harness error.
        tb = traceback.extract_tb(e.__traceback__)
        inner = tb[-1] if tb else None
        root = repo_dir()
        if inner is None or not os.path.abspath(inner.filename).startswith(root + os.sep):
            raise
        where = f"{os.path.relpath(inner.filename, root)}:{inner.name}"
        sig = f"{prop}.crash-in-code-under-test/{type(e).__name__}@{where}"
        v = kernel.Violation(prop, f"{prop}.crash-in-code-under-test", sig,
                             f"{type(e).__name__}: {e} (raised in {where} while the check evaluated an oracle on inputs that work on the unchanged tree)")
        st = kernel.RunStats()
        return dict(digest=kernel.digest(["crash", sig]), violations=[v], stats=st.to_dict(), log_head=[["crash", sig]])


def _worker_chunk(indices):
    out = []
    errors = []
    eng = _W["engine"]
    for i in indices:
        faulthandler.dump_traceback_later(_W["timeout"], exit=True)
        try:
            r = run_one(eng, _W["prop"], _W["tier"], _W["seed"], i)
        except Exception:
            faulthandler.cancel_dump_traceback_later()
            # the run is void (nothing it says is believed); the other runs of the batch still count
            errors.append({"harness_error": traceback.format_exc(), "index": i})
            if len(errors) >= 3:
                break
            continue
        faulthandler.cancel_dump_traceback_later()
        keep_plan = bool(r["violations"]) or i < 3
        out.append(
            dict(
                index=i,
                run_seed=r["run_seed"],
                digest=r["digest"],
                violations=r["violations"],
                stats=r["stats"],
                plan=r["plan"] if keep_plan else None,
            )
        )
    return {"results": out, "errors": errors}


# --------------------------------------------------------------------------------------
# minimisation


def _still_fails(engine, prop, plan, oracle_id, signature):
    try:
        r = hermetic_execute(engine, prop, plan)
    except Exception:
        return None
    for v in r["violations"]:
        if v["oracle_id"] == oracle_id and v["signature"] == signature:
            return r
    return None


def minimise(engine, prop, plan, violation, budget_s=60.0):
    """ddmin over plan['steps'] (if present) then engine-specific reducers, while the
    same oracle id and signature keep firing."""
    t0 = time.time()
    oid, sig = violation["oracle_id"], violation["signature"]
    best = plan
    tried = 0

    def ok(p):
        nonlocal tried
        tried += 1
        return _still_fails(engine, prop, p, oid, sig) is not None

    # ddmin on steps
    if isinstance(best.get("steps"), list):
        steps = list(best["steps"])
        n = 2
        while len(steps) >= 2 and time.time() - t0 < budget_s:
            chunk = max(1, len(steps) // n)
            reduced = False
            for start in range(0, len(steps), chunk):
                cand = steps[:start] + steps[start + chunk :]
                p = dict(best, steps=cand)
                if ok(p):
                    steps, best = cand, p
                    n = max(n - 1, 2)
                    reduced = True
                    break
                if time.time() - t0 > budget_s:
                    break
            if not reduced:
                if chunk == 1:
                    break
                n = min(len(steps), n * 2)
    # engine reducers, to fixpoint
    red = getattr(engine, "reducers", None)
    if red is not None:
        progress = True
        while progress and time.time() - t0 < budget_s:
            progress = False
            for cand in red(prop, best):
                if time.time() - t0 > budget_s:
                    break
                if ok(cand):
                    best = cand
                    progress = True
                    break
    return best, tried


def write_replay(prop, engine, tier, run_seed, plan, violation, res_digest):
    os.makedirs(os.path.join(VERIF_DIR, "replays"), exist_ok=True)
    body = dict(
        property=prop,
        engine=engine.SPEC[prop]["engine"],
        tier=tier,
        run_seed=run_seed,
        plan=plan,
        oracle_id=violation["oracle_id"],
        signature=violation["signature"],
        message=violation["message"],
        detail=violation.get("detail"),
        event_digest=res_digest,
    )
    name = f"{prop}-{kernel.digest([plan, violation['signature']])[:12]}.json"
    path = os.path.join(VERIF_DIR, "replays", name)
    kernel.dump_json(body, path)
    return path


def replay_in_fresh_interpreter(path):
    cmd = [sys.executable, os.path.join(VERIF_DIR, "simkit", "main.py"), "replay", path, "--json"]
    env = dict(os.environ)
    env.pop("VERIF_PINNED", None)
    p = subprocess.run(cmd, capture_output=True, text=True, env=env, timeout=1800)
    for line in p.stdout.splitlines():
        if line.startswith("REPLAY-RESULT "):
            return json.loads(line[len("REPLAY-RESULT ") :])
    raise HarnessError(f"replay produced no result line:\n{p.stdout[-2000:]}\n{p.stderr[-2000:]}")


def do_replay(path, as_json=False):
    with open(path) as f:
        body = json.load(f)
    prop = body["property"]
    engine = load_engine(prop)
    if hasattr(engine, "preload"):
        engine.preload(prop)
    res = hermetic_execute(engine, prop, body["plan"])
    hit = [
        v
        for v in res["violations"]
        if v["oracle_id"] == body["oracle_id"] and v["signature"] == body["signature"]
    ]
    out = dict(
        reproduced=bool(hit),
        digest=res["digest"],
        expected_digest=body.get("event_digest"),
        same_digest=res["digest"] == body.get("event_digest"),
        violations=res["violations"],
    )
    if as_json:
        print("REPLAY-RESULT " + json.dumps(kernel.jsonable(out)))
    else:
        print(json.dumps(kernel.jsonable(out), indent=1)[:6000])
        for e in res.get("log_head", [])[-60:]:
            print("  event", json.dumps(e)[:300])
        if hit:
            print(f"VIOLATION property={prop} replay={path}")
    return 1 if hit else 0


# --------------------------------------------------------------------------------------
# main check driver


COMMON_STUBS = [
    "thread pools (every run): concurrent.futures.ThreadPoolExecutor / as_completed / wait and multiprocessing ThreadPool are the "
    "simulator's cooperative pool -- tasks run one at a time to completion in a seeded order (no pre-emption inside a task; bare "
    "threading.Thread is not intercepted); the shipped code starts no threads, so this only matters for changed trees",
    "CLI steps run as simulated processes in this interpreter (launch.run_cli: patched argv, per-launch entropy, time.sleep costs "
    "nothing); their output paths may hold a leftover file and one of their first HDF5 opens may fail once (faults leftover.*, "
    "transient.h5.open) -- a step that dies on it is re-run, as a workflow engine would",
    "OS entropy (os.urandom, random seeding, seedless default_rng) is served from the run's seed",
]


def run_check(prop, tier, runs=None, jobs=None, verif_seed=None, write_evidence=True,
              want_digests=False, quiet=False):
    t0 = time.time()
    kernel.sweep_stale_scratch()
    engine = load_engine(prop)
    spec = engine.SPEC[prop]
    check_repo_import()
    if verif_seed is None:
        verif_seed = int(os.environ.get("VERIF_SEED", "0"))
    if runs is None:
        runs = spec["runs"][tier]
    if jobs is None:
        jobs = int(os.environ.get("VERIF_JOBS", "16"))
    wall_cap = float(os.environ.get("VERIF_WALL_CAP", spec.get("wall_cap", {}).get(tier, 3000 if tier == "quick" else 6 * 3600)))
    per_run_timeout = spec.get("run_timeout", 300)
    if hasattr(engine, "preload"):
        engine.preload(prop)
    if hasattr(engine, "selfcheck"):
        engine.selfcheck(prop)  # may raise HarnessError (e.g. workflow model out of date)

    chunk = spec.get("chunk", 1)
    index_chunks = [list(range(s, min(runs, s + chunk))) for s in range(0, runs, chunk)]
    results = []
    harness_errors = []
    skipped_for_cap = 0
    if jobs <= 1:
        _worker_init(prop, tier, verif_seed, per_run_timeout)
        for ic in index_chunks:
            if time.time() - t0 > wall_cap:
                skipped_for_cap += len(ic)
                continue
            r = _worker_chunk(ic)
            harness_errors.extend(r["errors"])
            results.extend(r["results"])
            if len(harness_errors) >= 10:
                break
    else:
        ctx = mp.get_context("fork")
        with cf.ProcessPoolExecutor(
            max_workers=jobs, mp_context=ctx, initializer=_worker_init,
            initargs=(prop, tier, verif_seed, per_run_timeout),
        ) as ex:
            pending = {}
            it = iter(index_chunks)
            exhausted = False
            try:
                while True:
                    while not exhausted and len(pending) < jobs * 3:
                        if time.time() - t0 > wall_cap:
                            rest = sum(len(c) for c in it)
                            skipped_for_cap += rest
                            exhausted = True
                            break
                        try:
                            ic = next(it)
                        except StopIteration:
                            exhausted = True
                            break
                        pending[ex.submit(_worker_chunk, ic)] = ic
                    if not pending:
                        break
                    done, _ = cf.wait(pending, timeout=per_run_timeout * chunk + 120,
                                      return_when=cf.FIRST_COMPLETED)
                    if not done:
                        raise HarnessError("worker wall timeout")
                    for fut in done:
                        ic = pending.pop(fut)
                        r = fut.result()
                        harness_errors.extend(r["errors"])
                        results.extend(r["results"])
                    if len(harness_errors) >= 10:
                        for f in pending:
                            f.cancel()
                        break
            except cf.process.BrokenProcessPool as e:
                raise HarnessError(f"worker died (timeout or crash): {e}")

    harness_errors.sort(key=lambda r: r["index"])
    if harness_errors and (want_digests or not any(r["violations"] for r in results)):
        # void runs and nothing else to report: the check cannot speak
        print("HARNESS-ERROR in run", harness_errors[0]["index"])
        print(harness_errors[0]["harness_error"])
        return 2
    # (void runs next to runs with violations: the violations are reported below -- each is re-executed, minimised and
    # replayed in a fresh interpreter before it is believed -- and the void runs are listed after them)

    results.sort(key=lambda r: r["index"])
    if want_digests:
        return {r["index"]: r["digest"] for r in results}

    # ---- aggregate
    known = load_known()
    agg_faults, agg_probes = {}, {}
    steps = oracle_evals = 0
    keys = set()
    nontrivial_runs = 0
    for r in results:
        s = r["stats"]
        steps += s["steps"]
        oracle_evals += s["oracle_evals"]
        for k, v in s["faults"].items():
            agg_faults[k] = agg_faults.get(k, 0) + v
        for k, v in s["probes"].items():
            agg_probes[k] = agg_probes.get(k, 0) + v
        keys.update(s["keys"])
        nontrivial_runs += 1 if s["nontrivial"] else 0

    by_sig = {}
    for r in results:
        for v in r["violations"]:
            by_sig.setdefault(v["signature"], []).append((r, v))

    known_fired, unknown = {}, {}
    for sig, lst in by_sig.items():
        k = match_known(known, prop, sig)
        if k is not None:
            known_fired[sig] = (k, len(lst))
        else:
            unknown[sig] = lst

    exit_code = 0
    violation_lines = []
    for sig, (k, n) in sorted(known_fired.items()):
        print(f"KNOWN-FINDING: property={prop} {sig} ({n} runs) -- {k['what']}")
    n_reported = 0
    for sig, lst in sorted(unknown.items(), key=lambda kv: min(r["index"] for r, _ in kv[1])):
        if n_reported >= int(os.environ.get("VERIF_MAX_REPORTS", "3")):
            print(f"(further unlisted violation signature not minimised: {sig}, {len(lst)} runs)")
            exit_code = 1
            continue
        r, v = min(lst, key=lambda rv: rv[0]["index"])
        plan = r["plan"]
        # confirm in-process reproducibility
        again = _still_fails(engine, prop, plan, v["oracle_id"], v["signature"])
        if again is None:
            print(f"HARNESS-ERROR: violation {sig} of run {r['index']} did not reproduce in-process")
            print(json.dumps(v)[:1500])
            return 2
        small, tried = minimise(engine, prop, plan, v,
                                budget_s=float(os.environ.get("VERIF_MIN_BUDGET", "90")))
        final = _still_fails(engine, prop, small, v["oracle_id"], v["signature"])
        vv = [x for x in final["violations"] if x["signature"] == sig][0]
        path = write_replay(prop, engine, tier, r["run_seed"], small, vv, final["digest"])
        rr = replay_in_fresh_interpreter(path)
        if not (rr["reproduced"] and rr["same_digest"]):
            print(f"HARNESS-ERROR: replay {path} not exact in a fresh interpreter: {rr}")
            return 2
        nsteps = len(small.get("steps", [])) if isinstance(small.get("steps"), list) else None
        print(f"violation: {vv['oracle_id']} :: {vv['message'][:600]}")
        print(f"  seed={r['run_seed']} run_index={r['index']} runs_with_this_signature={len(lst)} "
              f"minimised_steps={nsteps} shrink_attempts={tried}")
        line = f"VIOLATION property={prop} replay={path}"
        print(line)
        violation_lines.append(line)
        n_reported += 1
        exit_code = 1

    if harness_errors:
        print(f"note: {len(harness_errors)} run(s) were void (harness error), first in run {harness_errors[0]['index']}:")
        print("  " + harness_errors[0]["harness_error"].strip().splitlines()[-1][:300])
        if exit_code == 0:
            return 2  # only known findings next to void runs: not a clean verdict
    wall = time.time() - t0
    n = len(results)
    for name, cnt in sorted(agg_probes.items()):
        if cnt == 0 and tier == "thorough":
            print(f"warning: probe {name} never hit")
    if not quiet:
        print(f"{prop} {tier}: runs={n} steps={steps} oracle_evals={oracle_evals} "
              f"distinct={len(keys)} faults={agg_faults} wall={wall:.1f}s "
              f"skipped_for_cap={skipped_for_cap} violations={len(unknown)} known={len(known_fired)}")

    if write_evidence:
        samples = [kernel.jsonable(r["plan"]) for r in results[:2] if r["plan"] is not None]
        samples = [_truncate(s) for s in samples]
        ev = dict(
            property_id=prop,
            tier=tier,
            seed=int(verif_seed),
            level=spec["level"],
            wall_s=round(wall, 2),
            violations=len(unknown),
            coverage=dict(
                evaluations=n,
                distinct_nontrivial=len(keys),
                rule=spec["rule"],
                samples=samples,
                exhaustive=bool(spec.get("exhaustive", False)),
                runs=n,
                nontrivial_runs=nontrivial_runs,
                runs_per_hour=int(n / max(wall, 1e-6) * 3600),
                seeds=dict(first=results[0]["run_seed"] if results else None,
                           last=results[-1]["run_seed"] if results else None, count=n,
                           verif_seed=int(verif_seed)),
                sim_steps=steps,
                sim_time_note="batchie has no clock-dependent behaviour; simulated time is counted in "
                              "steps (process launches / operations / sampler block updates)",
                oracle_evaluations=oracle_evals,
                faults_fired=agg_faults,
                probes=agg_probes,
                real_components=spec["real"],
                stub_components=list(spec["stub"]) + COMMON_STUBS,
                known_findings_fired={s: c for s, (k, c) in known_fired.items()},
                skipped_for_wall_cap=skipped_for_cap,
                jobs=jobs,
                repo=repo_dir(),
            ),
            assumptions=spec["assumptions"],
        )
        os.makedirs(os.path.join(VERIF_DIR, "evidence"), exist_ok=True)
        kernel.dump_json(ev, os.path.join(VERIF_DIR, "evidence", f"{prop}.json"))
    return exit_code


def _truncate(obj, max_list=12, depth=0):
    if isinstance(obj, dict):
        return {k: _truncate(v, max_list, depth + 1) for k, v in obj.items()}
    if isinstance(obj, list):
        if len(obj) > max_list:
            return [_truncate(x, max_list, depth + 1) for x in obj[:max_list]] + [f"... ({len(obj) - max_list} more)"]
        return [_truncate(x, max_list, depth + 1) for x in obj]
    return obj


# --------------------------------------------------------------------------------------
# self tests


def selftest_determinism(props, n):
    """Same run seeds: (a) 16-worker pool here, (b) 1 worker here, (c) fresh interpreter
    under another PYTHONHASHSEED with 3 workers; all digests must agree."""
    bad = 0
    for prop in props:
        a = run_check(prop, "quick", runs=n, jobs=16, write_evidence=False, want_digests=True)
        b = run_check(prop, "quick", runs=min(n, 40), jobs=1, write_evidence=False, want_digests=True)
        if not isinstance(a, dict) or not isinstance(b, dict):
            print(f"determinism {prop}: harness error")
            bad += 1
            continue
        env = dict(os.environ)
        env.pop("VERIF_PINNED", None)
        env["VERIF_HASHSEED"] = "4242"
        p = subprocess.run(
            [sys.executable, os.path.join(VERIF_DIR, "simkit", "main.py"), "digests", prop,
             "--runs", str(n), "--jobs", "3"], capture_output=True, text=True, env=env)
        c = None
        for line in p.stdout.splitlines():
            if line.startswith("DIGESTS "):
                c = {int(k): v for k, v in json.loads(line[8:]).items()}
        if c is None:
            print(f"determinism {prop}: fresh interpreter failed\n{p.stdout[-1500:]}\n{p.stderr[-1500:]}")
            bad += 1
            continue
        diff_ab = [i for i in b if a.get(i) != b[i]]
        diff_ac = [i for i in a if a[i] != c.get(i)]
        status = "ok" if not diff_ab and not diff_ac else "MISMATCH"
        print(f"determinism {prop}: {status} n={len(a)} pool16-vs-1worker diffs={diff_ab[:5]} "
              f"pool16-vs-fresh(hashseed=4242,3 workers) diffs={diff_ac[:5]}")
        if status != "ok":
            bad += 1
    return 0 if bad == 0 else 2


def main(argv=None):
    ensure_pinned_env()
    ap = argparse.ArgumentParser(prog="vcheck")
    sub = ap.add_subparsers(dest="cmd")
    # check: vcheck C03 --tier quick
    ap_check = sub.add_parser("check")
    ap_check.add_argument("prop")
    ap_check.add_argument("--tier", default=os.environ.get("VERIF_TIER", "quick"), choices=["quick", "thorough"])
    ap_check.add_argument("--runs", type=int)
    ap_check.add_argument("--jobs", type=int)
    ap_check.add_argument("--seed", type=int)
    ap_check.add_argument("--no-evidence", action="store_true")
    ap_rep = sub.add_parser("replay")
    ap_rep.add_argument("path")
    ap_rep.add_argument("--json", action="store_true")
    ap_dig = sub.add_parser("digests")
    ap_dig.add_argument("prop")
    ap_dig.add_argument("--runs", type=int, default=50)
    ap_dig.add_argument("--jobs", type=int, default=1)
    ap_st = sub.add_parser("selftest")
    ap_st.add_argument("what", choices=["determinism", "mutants"])
    ap_st.add_argument("props", nargs="*")
    ap_st.add_argument("--n", type=int, default=200)
    ap_st.add_argument("--tier", default="quick")
    ap_st.add_argument("--only", default=None)
    argv = list(sys.argv[1:] if argv is None else argv)
    if argv and argv[0] not in ("check", "replay", "digests", "selftest", "-h", "--help"):
        argv = ["check"] + argv
    args = ap.parse_args(argv)
    try:
        if args.cmd == "check":
            return run_check(args.prop, args.tier, runs=args.runs, jobs=args.jobs,
                             verif_seed=args.seed, write_evidence=not args.no_evidence)
        if args.cmd == "replay":
            check_repo_import()
            return do_replay(args.path, as_json=args.json)
        if args.cmd == "digests":
            d = run_check(args.prop, "quick", runs=args.runs, jobs=args.jobs,
                          write_evidence=False, want_digests=True)
            if not isinstance(d, dict):
                return 2
            print("DIGESTS " + json.dumps(d))
            return 0
        if args.cmd == "selftest":
            props = args.props or sorted(REGISTRY)
            if args.what == "determinism":
                return selftest_determinism(props, args.n)
            from simkit import mutants

            return mutants.run(props, tier=args.tier, only=args.only)
        ap.print_help()
        return 2
    except HarnessError as e:
        print(f"HARNESS-ERROR: {e}")
        return 2
