"""Reference models and oracle helpers.  Deliberately dumb: loops over plain Python
values; nothing here calls batchie except to *read* attributes of the object under test."""
from __future__ import annotations

import math

import numpy as np

from simkit.kernel import f64_bits, digest

CONTROL = -1


# ---------------------------------------------------------------------------- screens


def tkey(name, dose):
    d = float(dose)
    if d == 0.0:
        d = 0.0  # -0.0 == 0.0
    return (str(name), d)


def content_rows(screen):
    """Rows of a Screen / ScreenSubset as plain tuples:
    (sample name, ((treatment name, dose), ...), observation bits, plate name, observed)"""
    tn = np.asarray(screen.treatment_names)
    td = np.asarray(screen.treatment_doses)
    sn = np.asarray(screen.sample_names)
    pn = np.asarray(screen.plate_names)
    ob = f64_bits(screen.observations)
    mk = np.asarray(screen.observation_mask)
    out = []
    for i in range(len(sn)):
        tr = tuple(tkey(tn[i, k], td[i, k]) for k in range(tn.shape[1]))
        out.append((str(sn[i]), tr, int(ob[i]), str(pn[i]), bool(mk[i])))
    return out


def subset_content_rows(subset):
    """Same, for a ScreenSubset (plate names come from the parent)."""
    scr = subset.screen
    sel = np.asarray(subset.selection_vector)
    rows = content_rows(scr)
    return [r for r, s in zip(rows, sel) if s]


def mapping_dicts(screen):
    """(sample name -> id, (treatment name, dose) -> id) from the object's own mappings.
    Returns also the lengths, so duplicates inside a mapping are visible."""
    sm = screen.sample_mapping
    tm = screen.treatment_mapping
    sd = {}
    for n, i in zip(np.asarray(sm[0]).tolist(), np.asarray(sm[1]).tolist()):
        sd[str(n)] = int(i)
    td = {}
    for n, d, i in zip(np.asarray(tm[0]).tolist(), np.asarray(tm[1]).tolist(), np.asarray(tm[2]).tolist()):
        td[tkey(n, d)] = int(i)
    return sd, td, len(sm[0]), len(tm[0])


def row_ids(screen):
    """Per row: (sample id, (treatment ids...), plate id) as ints."""
    sid = np.asarray(screen.sample_ids).tolist()
    tid = np.asarray(screen.treatment_ids).tolist()
    pid = np.asarray(screen.plate_ids).tolist()
    return [(int(s), tuple(int(x) for x in t), int(p)) for s, t, p in zip(sid, tid, pid)]


def is_control_cell(name, dose, control_name):
    return str(name) == str(control_name) or float(dose) <= 0


def dense_rank(values):
    """sorted-unique encoding: value -> rank (code-point order for strings)."""
    return {v: i for i, v in enumerate(sorted(set(values)))}


def plate_id_of(rows):
    """Reference plate ids of a list of content rows: rank of the plate name."""
    return dense_rank([r[3] for r in rows])


def logical_screen_digest(screen):
    sd, td, ls, lt = mapping_dicts(screen)
    return digest([
        content_rows(screen), row_ids(screen), sorted(sd.items()),
        sorted((k[0], k[1], v) for k, v in td.items()), ls, lt,
        str(screen.control_treatment_name),
    ])


class IdView:
    """Minimal ScreenBase-like object exposing chosen ids (used to predict with reference ids)."""

    def __init__(self, sample_ids, treatment_ids):
        self.sample_ids = np.asarray(sample_ids, dtype=int)
        self.treatment_ids = np.asarray(treatment_ids, dtype=int).reshape(len(self.sample_ids), -1)

    @property
    def treatment_arity(self):
        return self.treatment_ids.shape[1]

    @property
    def size(self):
        return self.treatment_ids.shape[0]


# ---------------------------------------------------------------------- predictions


def ref_predict_mean(theta, sample_id, treatment_ids):
    """SparseDrugComboMCMCSample mean for one row, by loops."""
    W, W0, V2, V1, V0 = theta.W, theta.W0, theta.V2, theta.V1, theta.V0
    D = W.shape[1]
    nz = [t for t in treatment_ids if t != CONTROL]
    mu = float(theta.alpha) + float(W0[sample_id])
    for t in nz:
        mu += float(V0[t])
    for d in range(D):
        s1 = 0.0
        for t in nz:
            s1 += float(V1[t, d])
        mu += float(W[sample_id, d]) * s1
    if len(treatment_ids) == 2 and len(nz) == 2:
        for d in range(D):
            mu += float(W[sample_id, d]) * float(V2[nz[0], d]) * float(V2[nz[1], d])
    return mu


def logistic(x):
    if x >= 0:
        z = math.exp(-x)
        return 1.0 / (1.0 + z)
    z = math.exp(x)
    return z / (1.0 + z)


def clip(x, lo, hi):
    return lo if x < lo else hi if x > hi else x


def ref_interaction_mean(theta, sample_id, treatment_ids):
    W, V2 = theta.W, theta.V2
    if any(t == CONTROL for t in treatment_ids):
        return 0.0
    mu = 0.0
    for d in range(W.shape[1]):
        mu += float(W[sample_id, d]) * float(V2[treatment_ids[0], d]) * float(V2[treatment_ids[1], d])
    return mu


# ---------------------------------------------------------------------------- DBAL


def ref_dbal_plate(means, variances, dist, distance_factor=1.0):
    """Direct, unpadded evaluation of the documented estimator for ONE plate.
    means, variances: (n_thetas, n_experiments) lists/arrays; dist: (n, n).
    Returns log sum over triples a<b<c (as sets) of
       (D_ab + D_bc + D_ac)^f * prod_e alpha_e^{-1/2} exp(-1/2 * (va vb vc / alpha_e^2) *
            (vc (ma-mb)^2 + vb (ma-mc)^2 + va (mb-mc)^2))"""
    n = len(means)
    ne = len(means[0]) if n else 0
    terms = []
    for a in range(n):
        for b in range(a):
            for c in range(b):
                dsum = float(dist[a][b]) + float(dist[b][c]) + float(dist[a][c])
                if dsum <= 0:
                    terms.append(-math.inf)
                    continue
                lt = distance_factor * math.log(dsum)
                for e in range(ne):
                    va, vb, vc = float(variances[a][e]), float(variances[b][e]), float(variances[c][e])
                    ma, mb, mc = float(means[a][e]), float(means[b][e]), float(means[c][e])
                    alpha = va * vb + vb * vc + va * vc
                    lt += -0.5 * math.log(alpha)
                    lt += -0.5 * (va * vb * vc / (alpha * alpha)) * (
                        vc * (ma - mb) ** 2 + vb * (ma - mc) ** 2 + va * (mb - mc) ** 2
                    )
                terms.append(lt)
    if not terms:
        return None
    m = max(terms)
    if m == -math.inf:
        return -math.inf
    return m + math.log(sum(math.exp(t - m) for t in terms))


def multiset(items):
    d = {}
    for x in items:
        d[x] = d.get(x, 0) + 1
    return d


def multiset_sub(a, b):
    """a - b as multisets; returns (difference, missing) where missing lists what b has in
    excess of a."""
    out = dict(a)
    missing = {}
    for k, v in b.items():
        have = out.get(k, 0)
        if have < v:
            missing[k] = v - have
            out.pop(k, None)
        elif have == v:
            out.pop(k)
        else:
            out[k] = have - v
    return out, missing
