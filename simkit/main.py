import os
import sys

sys.path.insert(0, os.path.dirname(os.path.dirname(os.path.abspath(__file__))))

from simkit import runner  # noqa: E402

if __name__ == "__main__":
    sys.exit(runner.main())
