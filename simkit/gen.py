"""Swarm workload generator: raw screen specifications (JSON-serialisable) and their
conversion to the arrays batchie's Screen constructor takes."""
from __future__ import annotations

import math

import numpy as np

NAME_POOLS = {
    "ascii": ["a", "b", "c", "d", "e", "f", "g", "h"],
    "tricky": ["", "a", "A", "ab", "b ", "é", "日本", "ß", "a,b", "10", "9", "x" * 12, "Ω", "ctl", "control",
               # spellings that differ only in unicode normal form / compatibility form / invisible characters are DIFFERENT names
               "e\u0301", "\u212b", "\u00c5", "a\u200b", " a", "\uff41"],
    "digits": ["1", "2", "10", "11", "9", "100", "01"],
    "wide": [f"t{i}" for i in range(300)],
    # names that are prefixes / extensions of one another and of unequal width (fixed-width string arrays truncate silently)
    "prefixy": ["t", "t1", "t10", "t100", "t2", "t20", "x", "xy", "xyz", "xyzw", "t1000000"],
}
SAMPLE_POOLS = {
    "ascii": ["s0", "s1", "s2", "s3", "s4", "s5", "s6"],
    "tricky": ["", "s", "S", "é", "日本", "cell line", "10", "9", "ctl", "zz" * 6, "e\u0301", "\u212b", "\u00c5", "s\u200b"],
    "wide": [f"s{i}" for i in range(300)],
    "prefixy": ["s", "s1", "s10", "s100", "s2", "s12", "ab", "abc", "abcd", "s1000000"],
}
PLATE_POOLS = {
    "ascii": ["p0", "p1", "p2", "p3", "p4", "p5", "p6", "p7", "p8", "p9", "p10", "p11"],
    "tricky": ["", "p", "P", "é", "日本", "plate 1", "10", "9", "2", "ctl", "unobserved_plate", "q" * 9, "e\u0301", "\u212b", "\u00c5", "p\u200b"],
    "wide": [f"p{i}" for i in range(300)],
    "prefixy": ["p", "p1", "p10", "p100", "p2", "p12", "q", "qr", "qrs", "p1000000"],
}
DOSES = [1.0, 2.0, 0.5, 10.0, 1e-3, 5e-324, 2.2250738585072014e-308, 1e300, 3.0000000000000004]
CONTROL_DOSES = [0.0, -0.0, -1.0, -5e-324]
OBS_SPECIAL = [0.0, 1.0, 0.5, 1e-9, 0.009, 0.995, 1.7, 5e-324, 0.30000000000000004, 1.0 / 3.0]


def gen_obs(rnd, special_rate=0.3, allow_zero=True):
    if rnd.random() < special_rate:
        v = rnd.choice(OBS_SPECIAL)
        if not allow_zero and v == 0.0:
            v = 0.25
        return v
    return rnd.uniform(0.02, 0.98)


def gen_screen(rnd, *, arity=None, n_rows=None, n_plates=None, n_samples=None, n_names=None,
               n_doses=None, alphabet=None, control=None, observed_rate=None,
               control_rate=0.25, dup_rate=0.15, nonzero_obs=False, all_observed=False,
               no_self_pairs=False, big_rate=0.05):
    """A raw screen: dict(control, arity, rows=[[sample,[[name,dose]..],obs,plate,observed]..])"""
    alphabet = alphabet or rnd.choice(["ascii", "ascii", "tricky", "tricky", "prefixy"])
    arity = arity or rnd.choice([1, 2, 2, 2, 3])
    n_rows = n_rows or rnd.randint(4, 40)
    # a few runs are BIG: more rows than any plausible block size (32, 64, 128, 256) and more distinct samples,
    # plates and (treatment, dose) pairs than fit a one-byte id, so blocking and narrow-integer shortcuts are crossed
    big = rnd.random() < big_rate
    if big:
        n_rows = rnd.choice([70, 131, 263, 300])
        alphabet = rnd.choice(["wide", "wide", alphabet])
        n_plates = n_plates or rnd.choice([3, 33, 200])
        n_samples = n_samples or rnd.choice([2, 34, 250])
        n_names = n_names or rnd.choice([5, 40, 150])
    n_plates = n_plates or rnd.randint(1, min(8, n_rows))
    n_samples = n_samples or rnd.randint(1, 5)
    n_names = n_names or rnd.randint(2, 6)
    n_doses = n_doses or rnd.randint(1, 3)
    names = rnd.sample(NAME_POOLS[alphabet], min(n_names, len(NAME_POOLS[alphabet])))
    samples = rnd.sample(SAMPLE_POOLS[alphabet], min(n_samples, len(SAMPLE_POOLS[alphabet])))
    plates = rnd.sample(PLATE_POOLS[alphabet], min(n_plates, len(PLATE_POOLS[alphabet])))
    doses = rnd.sample(DOSES if alphabet == "tricky" else DOSES[:5], n_doses)
    if alphabet == "prefixy":
        # with names t / t1 / t10: ("t1", 0.5) and ("t", 10.5) read alike once name and dose are glued together
        doses = rnd.sample([0.5, 10.5, 0.05, 100.5, 1.0, 10.0, 2.5, 12.5], n_doses)
    if control is None and alphabet in ("wide", "prefixy"):
        control = rnd.choice(["", "control", names[0]])
    if control is None:
        control = rnd.choice(["", "control", "ctl", rnd.choice(names)]) if alphabet == "tricky" else rnd.choice(["", "control", names[0]])
    if observed_rate is None:
        observed_rate = rnd.choice([0.0, 0.3, 0.5, 0.7, 1.0])
    plate_observed = {p: (True if all_observed else rnd.random() < observed_rate) for p in plates}
    rows = []
    for _ in range(n_rows):
        if rows and rnd.random() < dup_rate:
            r = rnd.choice(rows)
            rows.append([r[0], [list(t) for t in r[1]], gen_obs(rnd, allow_zero=not nonzero_obs), rnd.choice(plates), None])
            continue
        tr = []
        for k in range(arity):
            u = rnd.random()
            if u < control_rate / 2:
                tr.append([control, rnd.choice(doses + CONTROL_DOSES[:1])])
            elif u < control_rate:
                tr.append([rnd.choice(names), rnd.choice(CONTROL_DOSES)])
            else:
                tr.append([rnd.choice(names), rnd.choice(doses)])
        if no_self_pairs and arity == 2 and tr[0] == tr[1] and not _is_control(tr[0], control):
            others = [[n, d] for n in names for d in doses if [n, d] != tr[0] and n != control]
            if others:
                tr[1] = rnd.choice(others)
            else:
                tr[1] = [control, 0.0]
        rows.append([rnd.choice(samples), tr, gen_obs(rnd, allow_zero=not nonzero_obs), rnd.choice(plates), None])
    for r in rows:
        r[4] = plate_observed[r[3]]
    return dict(control=control, arity=arity, rows=rows)


def _is_control(t, control):
    return t[0] == control or t[1] <= 0


def is_control(t, control):
    return _is_control(t, control)


def to_arrays(spec):
    rows = spec["rows"]
    n = len(rows)
    arity = spec["arity"]
    tn = np.array([[t[0] for t in r[1]] for r in rows], dtype=str).reshape(n, arity)
    td = np.array([[float(t[1]) for t in r[1]] for r in rows], dtype=float).reshape(n, arity)
    sn = np.array([r[0] for r in rows], dtype=str)
    pn = np.array([r[3] for r in rows], dtype=str)
    obs = np.array([float(r[2]) for r in rows], dtype=float)
    mask = np.array([bool(r[4]) for r in rows], dtype=bool)
    return dict(treatment_names=tn, treatment_doses=td, sample_names=sn, plate_names=pn,
                observations=obs, observation_mask=mask, control_treatment_name=spec["control"])


def add_space_extra(rnd, spec, k=None):
    """The screen is one part of a larger experiment space: its id mappings also list k samples and k treatments that
    occur in none of its rows, named so that they sort BETWEEN the present ones -- the ids of the present samples /
    treatments are then not contiguous (what training and hold-out parts of a split, or a prospective screen, look like)."""
    k = k if k is not None else rnd.choice([1, 1, 2, 3])
    ctl = spec["control"]
    samples = sorted({r[0] for r in spec["rows"]})
    treats = sorted({(t[0], t[1]) for r in spec["rows"] for t in r[1] if t[0] != ctl and t[1] > 0})
    xs = [s + "_x" for s in rnd.sample(samples, min(k, len(samples)))]
    xt = [[t[0] + "_x", 1.0] for t in rnd.sample(treats, min(k, len(treats)))] if treats else []
    spec["space_extra"] = dict(samples=[x for x in xs if x not in samples], treatments=[t for t in xt if t[0] != ctl])
    return spec


def make_screen(spec, **extra):
    from batchie.data import Screen

    sx = spec.get("space_extra")
    if sx and (sx["samples"] or sx["treatments"]) and "treatment_mapping" not in extra and "sample_mapping" not in extra:
        base = {k: v for k, v in spec.items() if k != "space_extra"}
        r0 = base["rows"][0]
        some_t = [list(t) for t in r0[1]]
        more = []
        for i in range(max(len(sx["samples"]), len(sx["treatments"]))):
            smp = sx["samples"][i] if i < len(sx["samples"]) else r0[0]
            tr = [list(sx["treatments"][i])] * base["arity"] if i < len(sx["treatments"]) else some_t
            more.append([smp, tr, 0.5, r0[3], r0[4]])
        whole = make_screen(dict(base, rows=list(base["rows"]) + more))
        return make_screen(base, treatment_mapping=whole.treatment_mapping, sample_mapping=whole.sample_mapping, **extra)
    a = to_arrays(spec)
    # memory layout is not part of a screen's value: a caller may hand in Fortran-ordered tables
    # (np.vstack(cols).T, DataFrame.to_numpy()); which layout is used derives from the content
    lay = spec.get("layout")
    if lay is None:
        lay = ["C", "C", "C", "F-both", "F-names", "F-doses", "wideU", "strided", "strided-wideU", "C"][kernel_h(spec) % 10]
    if lay in ("F-both", "F-names"):
        a["treatment_names"] = np.asfortranarray(a["treatment_names"])
    if lay in ("F-both", "F-doses"):
        a["treatment_doses"] = np.asfortranarray(a["treatment_doses"])
    if "wideU" in lay:
        # fixed-width unicode arrays wider than their longest element (what a DataFrame column or a slice of a
        # larger table gives): the width of the dtype is not part of a name
        for k, extra_w in (("treatment_names", 33), ("sample_names", 7), ("plate_names", 1)):
            w_ = max(1, a[k].dtype.itemsize // 4) + extra_w
            a[k] = a[k].astype(f"<U{w_}")
    if "strided" in lay:
        # every table is a strided view of a larger one (rows of interest interleaved with junk rows)
        for k in ("treatment_names", "treatment_doses", "sample_names", "plate_names", "observations", "observation_mask"):
            v = a[k]
            if k == "treatment_names":  # junk as wide as the real names, so that the width is unchanged
                junk = np.full(v.shape, "~" * max(1, v.dtype.itemsize // 4), dtype=v.dtype)
            elif v.dtype.kind == "U":
                junk = np.full(v.shape, "~", dtype=v.dtype)
            elif v.dtype == bool:
                junk = ~v
            else:
                junk = np.full(v.shape, 7.5)
            big = np.empty((2 * v.shape[0],) + v.shape[1:], dtype=v.dtype)
            big[0::2] = v
            big[1::2] = junk
            a[k] = big[0::2]
    a.update(extra)
    return Screen(**a)


def kernel_h(spec):
    import hashlib

    return int(hashlib.sha256(repr((spec["control"], spec["arity"], len(spec["rows"]), spec["rows"][:2])).encode()).hexdigest()[:8], 16)


def ceil_frac(size, fraction):
    return math.ceil(size * fraction)
