#!/venv/bin/python
"""Regression of sensitivity against the kept independent seeded changes: every /verif/seeded/<id>/patch.diff is applied to a
scratch copy of /repo (never to /repo itself) and the property's quick check is pointed at it through VERIF_REPO.  Every one
must give exit 1 with a VIOLATION line for its property (exit 2, a harness error, counts as a miss).
usage: tools/reseed_all.py [--jobs 4] [--only C03,C12-b] [--tier quick]   -> seeded_last.json"""
import argparse
import concurrent.futures as cf
import json
import os
import shutil
import subprocess
import sys
import time

HERE = os.path.dirname(os.path.dirname(os.path.abspath(__file__)))
sys.path.insert(0, HERE)
from simkit import mutants  # noqa: E402


def one(name, tier, inner_jobs):
    d = os.path.join(HERE, "seeded", name)
    meta = json.load(open(os.path.join(d, "meta.json")))
    prop = meta.get("breaks_property") or meta["property"]
    root = mutants.make_copy()
    try:
        p = subprocess.run(["patch", "-p1", "-s", "-i", os.path.join(d, "patch.diff")], cwd=root, capture_output=True, text=True)
        if p.returncode != 0:
            return dict(name=name, prop=prop, caught=False, rc=None, first="patch does not apply: " + p.stdout[-200:])
        os.environ["VERIF_JOBS"] = str(inner_jobs)
        rc, out, err, wall = mutants.run_check_on(root, prop, tier)
        first = next((line for line in out.splitlines() if line.startswith("violation:")), "")
        import re
        m = re.search(r"runs_with_this_signature=(\d+)", out)
        n = re.search(r"runs=(\d+) steps=", out)
        return dict(name=name, prop=prop, caught=(rc == 1 and f"VIOLATION property={prop}" in out), rc=rc, wall=round(wall, 1),
                    first=first[:260], tail=(out[-600:] if rc != 1 else ""), expected_miss=(meta.get("caught") is False),
                    failing_runs=(int(m.group(1)) if m else None), runs=(int(n.group(1)) if n else None))
    finally:
        shutil.rmtree(root, ignore_errors=True)


def main():
    ap = argparse.ArgumentParser()
    ap.add_argument("--jobs", type=int, default=4)
    ap.add_argument("--inner-jobs", type=int, default=4)
    ap.add_argument("--only", default=None)
    ap.add_argument("--tier", default="quick")
    a = ap.parse_args()
    names = sorted(n for n in os.listdir(os.path.join(HERE, "seeded")) if os.path.isdir(os.path.join(HERE, "seeded", n)))
    if a.only:
        want = a.only.split(",")
        names = [n for n in names if any(n == w or n.startswith(w + "-") for w in want)]
    t0 = time.time()
    res = []
    with cf.ThreadPoolExecutor(max_workers=a.jobs) as ex:
        futs = {ex.submit(one, n, a.tier, a.inner_jobs): n for n in names}
        for f in cf.as_completed(futs):
            r = f.result()
            res.append(r)
            tag = "caught" if r["caught"] else ("missed (recorded as an honest miss)" if r.get("expected_miss") else "MISSED rc=" + str(r["rc"]))
            print(f"seeded {r['name']}: {tag} {r.get('wall', '')}s failing_runs={r.get('failing_runs')}/{r.get('runs')} :: {r['first'][:160]}", flush=True)
            if not r["caught"] and r.get("tail"):
                print(r["tail"], flush=True)
    res.sort(key=lambda r: r["name"])
    json.dump(dict(when=time.strftime("%Y-%m-%dT%H:%M:%S"), tier=a.tier, total=len(res), caught=sum(r["caught"] for r in res),
                   results=[{k: v for k, v in r.items() if k != "tail"} for r in res]),
              open(os.path.join(HERE, "seeded_last.json"), "w"), indent=1)
    print(f"seeded changes: {sum(r['caught'] for r in res)}/{len(res)} caught in {time.time() - t0:.0f}s "
          f"({sum(1 for r in res if r.get('expected_miss'))} recorded as honest misses)")
    return 0 if all(r["caught"] or r.get("expected_miss") for r in res) else 1


if __name__ == "__main__":
    sys.exit(main())
