#!/bin/sh
# runs every registered quick (or $1) check and prints: id exit-code summary (never truncates the verdict)
TIER=${1:-quick}
cd "$(dirname "$0")/.."
for p in $(/venv/bin/python -c "import json;print(' '.join(c['property_id'] for c in json.load(open('MANIFEST.json'))['checks']))"); do
  out=$(./vcheck $p --tier $TIER $2 2>&1); rc=$?
  echo "$p rc=$rc $(echo "$out" | grep -o 'runs=[0-9]*') $(echo "$out" | grep -o 'violations=[0-9]* known=[0-9]*') $(echo "$out" | grep -c '^VIOLATION') VIOLATION-lines $(echo "$out" | grep -o 'wall=[0-9.]*s')"
  if [ $rc -ne 0 ]; then echo "$out" | grep -E "^violation|HARNESS" | head -3; fi
done
