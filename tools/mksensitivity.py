#!/venv/bin/python
"""Writes /verif/SENSITIVITY.md from sensitivity_last.json (hand-written mutants, produced by
`./vcheck selftest mutants`) and the verification records under /verif/seeded/*/meta.json."""
import glob
import json
import os

HERE = os.path.dirname(os.path.dirname(os.path.abspath(__file__)))


def main():
    rows = json.load(open(os.path.join(HERE, "sensitivity_last.json")))
    import sys

    sys.path.insert(0, HERE)
    import mutants_table

    current = {(m["prop"], m["name"]) for m in mutants_table.MUTANTS}
    rows = [r for r in rows if (r["prop"], r["name"]) in current]  # rows of mutants since replaced are dropped
    out = ["# Sensitivity of the checks", "",
           "Two independent sources of breakage: (1) hand-written mutants (`mutants_table.py`, applied one at a time to a scratch copy "
           "of the repository by `./vcheck selftest mutants`), (2) seeded changes written by sub-agents that saw only the property text "
           "(`/verif/seeded/<id>/`, evaluated by `tools/try_seed.py`). Every row below was produced by running the registered check "
           "against the changed copy through `VERIF_REPO`; /repo itself is never modified.", ""]
    by_prop = {}
    for r in rows:
        by_prop.setdefault(r["prop"], []).append(r)
    total = len(rows)
    caught = sum(1 for r in rows if r["status"] in ("caught", "quiet-as-required"))
    out += [f"## 1. Hand-written mutants: {caught}/{total} as required", "",
            "| property | mutant | what it changes | result | tier | wall s | minimised steps | first oracle that fired |",
            "|---|---|---|---|---|---|---|---|"]
    for prop in sorted(by_prop):
        for r in by_prop[prop]:
            out.append(f"| {prop} | {r['name']} | {r['what']} | {r['status']} | {r.get('tier', 'quick')} | {r['wall']} | "
                       f"{r.get('minimised_steps') or '-'} | {(r.get('oracle') or '').replace('|', '/')[:110]} |")
    out += ["", "`quiet-as-required` marks an equivalent mutant: the property still holds and the check must not alarm.", ""]
    last = {}
    lp = os.path.join(HERE, "seeded_last.json")
    if os.path.exists(lp):
        sl = json.load(open(lp))
        last = {r["name"]: r for r in sl["results"]}
        out += [f"Last regression of all kept changes against the quick tier (`tools/reseed_all.py`, {sl['when']}): "
                f"{sl['caught']}/{sl['total']} caught; the column *failing runs* says how many runs of the batch hit it.", ""]
    out += ["## 2. Independent seeded changes", "",
            "| id | property | change | needs | result | failing runs (last regression) | strengthening it caused |", "|---|---|---|---|---|---|---|"]
    for d in sorted(glob.glob(os.path.join(HERE, "seeded", "*"))):
        mp = os.path.join(d, "meta.json")
        if not os.path.exists(mp):
            continue
        m = json.load(open(mp))
        out.append(f"| {os.path.basename(d)} | {m.get('breaks_property', m.get('property'))} | {str(m.get('summary', ''))[:220]} | "
                   f"{str(m.get('needs', ''))[:200]} | {m.get('check_result', '')} | "
                   f"{(str(last[os.path.basename(d)].get('failing_runs')) + '/' + str(last[os.path.basename(d)].get('runs'))) if os.path.basename(d) in last else '-'} | "
                   f"{m.get('strengthening', '-')} |")
    open(os.path.join(HERE, "SENSITIVITY.md"), "w").write("\n".join(out) + "\n")
    print("wrote SENSITIVITY.md:", caught, "/", total, "mutants;", len(glob.glob(os.path.join(HERE, 'seeded', '*'))), "seeded")


if __name__ == "__main__":
    main()
