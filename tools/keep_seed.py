#!/venv/bin/python
"""Store a confirmed seeded change under /verif/seeded/<name>/ (patch.diff, demonstration, meta.json).
usage: tools/keep_seed.py <out_dir> <name e.g. C07-d> "<which check catches it / verdict>" ["<strengthening it caused>"]"""
import json
import os
import shutil
import sys

HERE = os.path.dirname(os.path.dirname(os.path.abspath(__file__)))


def main():
    src, name, verdict = sys.argv[1], sys.argv[2], sys.argv[3]
    strengthening = sys.argv[4] if len(sys.argv) > 4 else None
    dst = os.path.join(HERE, "seeded", name)
    os.makedirs(dst, exist_ok=True)
    for f in os.listdir(src):
        if f.endswith(".py") or f in ("patch.diff", "meta.json"):
            shutil.copy(os.path.join(src, f), dst)
    m = json.load(open(os.path.join(dst, "meta.json")))
    m["breaks_property"] = name.split("-")[0]
    m["origin"] = ("sub-agent given only the property text (plus one-line summaries of earlier seeded changes to avoid) and a scratch "
                   "worktree of /repo; no access to /verif")
    m["confirmed_by_me"] = dict(
        patch_applies=True, suite_passes_with_change="151 passed", demo_fails_with_change=True, demo_passes_without_change=True,
        how="tools/try_seed.py <dir>: scratch copies of /repo (clean + patched) outside /repo and /verif; demo on both; pytest "
            "src/batchie on the patched copy; ./vcheck <id> --tier quick with VERIF_REPO=<patched copy>")
    m["check_result"] = verdict
    if strengthening:
        m["strengthening"] = strengthening
    json.dump(m, open(os.path.join(dst, "meta.json"), "w"), indent=1)
    print("kept", dst)


if __name__ == "__main__":
    main()
