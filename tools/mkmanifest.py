#!/venv/bin/python
"""Regenerates /verif/MANIFEST.json from the table below (kept next to the engines so the two
cannot drift apart silently).  Usage: /venv/bin/python tools/mkmanifest.py"""
import json
import os
import sys

HERE = os.path.dirname(os.path.dirname(os.path.abspath(__file__)))
sys.path.insert(0, HERE)

TECH = "deterministic simulation with fault injection"

CHECKS = {
    "C01": dict(
        engine="lifesim", design="6.1", category="exploration",
        technique=TECH + ": seeded operation histories over screens and their HDF5 files, stored-mapping corruption faults, invariant monitor on every live screen after every step",
        text="Weak by design: C01 is mostly a statement about a pure encoder. The simulation reaches it where histories matter: "
             "screens rebuilt with a mapping batchie produced for a superset (hold-out split, reload, re-subset), plate ids re-encoded in "
             "place by Plate.merge, and the fault 'stored mapping made non-dense / non-covering' for which load must refuse. A monitor "
             "checks decode, control sentinel, density, verbatim use of supplied mappings and experiment-space bounds on every live screen "
             "after every step.",
        note="Sampling, not enumeration. Screens <= 64 rows from a fixed tricky name alphabet. Screens produced by reveal/mask are "
             "checked for decode/sentinel/density only (whether those functions pass a mapping on is C03's subject)."),
    "C02": dict(
        engine="lifesim", design="6.2", category="exploration",
        technique=TECH + ": seeded histories with save -> fresh process -> load at arbitrary points, reference row model, logical digests; faults store.torn-save (save killed before its k-th dataset: load must refuse or return what was being saved) and leftover.stale-same-shape",
        text="Every load crosses a simulated process boundary (only the file survives) and may happen at any point of a history, so the "
             "screens persisted are the ones tests never build: mappings larger than the rows (after a split), partly revealed, merged "
             "plates, non-ASCII/empty names, NaN and denormal observations. Equality is bit-for-bit on observations, dictionary equality "
             "(plus length) on mappings, and a second cycle must be a fixed point.",
        note="No torn-file faults: the property promises nothing about them and publication is per-file atomic in this workflow. "
             "Known finding: zero-row screens save but do not load."),
    "C03": dict(
        engine="lifesim", design="6.3", category="exploration",
        technique=TECH + ": seeded reveal/mask/unmask/save/load histories (function and CLI-process level) on both halves of a prepared simulation, frozen-id reference (incl. hand-built permuted mappings), prediction invariance oracle; torn-archive, leftover and transient-open faults on the CLI steps",
        text="Prepared simulations in which a sample or (treatment, dose) is forced into hold-out-only rows, then arbitrary histories on the "
             "training and test screens with process boundaries at any step. Oracles: every live screen's ids agree with the ids frozen at "
             "preparation; embedding sizes never shrink along a lineage; a posterior sample sized by the first stage predicts bit-identically "
             "on every later stage.",
        note="Found the missing-mapping defect of reveal_plates/mask_screen/unmask_screen on the pinned tree (repaired by a fix: commit)."),
    "C12": dict(
        engine="lifesim", design="6.12", category="exploration",
        technique=TECH + ": seeded mask/unmask/reveal/save/load/set_observed histories with poisoned-plate faults, reference row model checked on every live screen after every step; leftover.earlier-attempt at the reveal step, torn archives",
        text="Histories of mask / unmask / reveal (id sets with already observed, repeated, unknown ids) / save / load, through the function "
             "and through reveal_plate + extract_screen_metadata processes. After every step every live screen must have atomic plates and "
             "equal the reference rows exactly; the metadata counter must drop by the number of newly revealed plates; poisoned plates "
             "(all zero / NaN) must be refused; constructor and set_observed clauses are checked on reached screens.",
        note="In-place operations are applied to un-aliased copies (reveal results share arrays with their source; no property speaks about that)."),
    "C11": dict(
        engine="prepsim", design="6.11", category="exploration",
        technique=TECH + ": seeded preparation histories (chains of generators/smoothers/cover/filter/reveal/split, generator in any state), multiset conservation oracle against input snapshots; the preparation process re-run into a job directory holding an earlier attempt's output",
        text="Chains of the shipped preparation operations on screens with duplicate conditions, single-agent rows and observed + unobserved "
             "plates, so each operation also runs on the outputs of the others (merged plates, ''-named plates, appended observed part). "
             "Every returning operation is judged by multiset algebra against a snapshot taken before the call: generators keep all "
             "experiments, smoothers a sub-collection, the observed part passes through with its plate labels, both hold-out splits "
             "partition their input with the stated per-plate counts and masks.",
        note="No I/O and no injected faults: the simulated dimensions are chaining (history) and generator state (entropy). Operations that "
             "raise are outside the quantifier and are not judged."),
    "C13": dict(
        engine="prepsim", design="6.13", category="exploration",
        technique=TECH + ": seeded preparation histories biased to the stated corners, per-operation post-condition oracles with small reference simulations (min-merge heap, top-bottom pairing, optimal size)",
        text="The same chains as C11, biased to several samples at/below the size limit, samples exactly at the limit, one/many plates and "
             ">= 2 samples below the per-sample minimum. On return each operation is judged against its documented shape guarantee: "
             "single-sample and size-limited generated plates, the cover, the combination filter, common/optimal plate size, per-sample "
             "minimum, exact stopping of min-merge and halving of top-bottom merge (against reference simulations on plate sizes).",
        note="Found two genuine defects on the pinned tree (sample-segregating generator, per-sample-minimum smoother), both repaired by fix: "
             "commits. Merge smoothers are judged only on single-sample inputs (their precondition)."),
    "C14": dict(
        engine="viewsim", design="6.14", category="exploration",
        technique=TECH + ": seeded view-operation histories with a reference index set per live view; every live view re-checked after every operation (aliasing)",
        text="Histories of subset / subset-of-subset / combine / concat / invert / observed / unobserved / get_plate / plates / to_screen / "
             "unique-filter / cross-screen combine over a pool of live views of two screens. Because views alias their parent and each other, "
             "after every operation EVERY live view is compared with its reference index set and with the parent's rows at those indices.",
        note="History-only simulation: no I/O, no faults (said plainly in DESIGN 6.14). Plate.merge is outside the property's operation list."),
    "C05": dict(
        engine="dbalsim", design="6.5", category="exploration",
        technique=TECH + ": partition schedules of the scoring phase (co-scheduling, chunking, sub-batching, order, relabelling, entropy reseed) against a loop-by-loop reference estimator; alloc.failure fault in the scoring kernel; thread schedule owned by the simulator",
        text="The same plates are scored alone, co-scored, split over every chunk index of several chunk counts, with scorer sub-batches "
             "from 1 to more than the number of plates, with the plate dict and the screen rows permuted, with the posterior samples "
             "and the distance matrix consistently relabelled (chain files arriving in another order), with a reseeded generator, and "
             "through the homoscedastic / heteroscedastic / scorer entry points; every score must equal the unpadded loop reference "
             "within 1e-9(1+|s|) and hence itself across schedules, and be finite whenever some triple has positive distance.",
        note="The per-experiment Gaussian triple term is frozen from the pinned commit (the only written definition); the reference is "
             "independent in padding, masks, axes, sub-batching and triple indexing. n <= 8 posterior samples, <= 7 plates x <= 8 experiments."),
    "C06": dict(
        engine="scoresim", design="6.6", category="exploration",
        technique=TECH + ": simulated scoring and selection processes (real CLIs or direct calls) with seeded chunk counts, batches, completion and arrival orders; recording scorer/policy; history oracle; leftover, transient-open and torn-archive faults",
        text="One calculate_scores worker per chunk (1 to more chunks than plates), any batch of already selected ids (unobserved, "
             "observed-after-reveal, mixed, all candidates), score files combined by the select_next_plate process in a seeded arrival "
             "order, with no policy / k-per-sample / a scripted policy and with scripted scores containing ties and -inf. Over the "
             "recorded history: every candidate scored exactly once; batch-conditioned views hold exactly one row per distinct ordered "
             "condition of plate+batch; the returned plate is eligible, allowed and of minimum recorded score; nothing is returned iff "
             "nothing is allowed.",
        note="The recording scorer/policy are resolved by the CLIs' own introspection (bound into a batchie module from outside). NaN scores are outside the statement."),
    "C07": dict(
        engine="distsim", design="6.7", category="fault_enumeration",
        technique=TECH + ": per-chunk distance worker processes, seeded arrival order at the combining stage, chunk.duplicate and chunk.lose faults (all single faults enumerated in the thorough tier); leftover, transient-open and torn-archive faults",
        text="Real calculate_distance_matrix processes for every chunk index over real holder files (0-14 samples, 1-3 chain files), "
             "n_chunks from 1 to more than the number of pairs; the combining stage loads the files in a seeded arrival order, with "
             "chunks duplicated (same matrix required) or withheld (to_dense must refuse). The assembled matrix must equal the "
             "single-chunk matrix and a plain-loop reference bit for bit; a scripted metric with a distinct value per unordered pair "
             "(zeros included) makes any misplaced entry visible; MSEDistance is checked for symmetry, non-negativity, identity.",
        note="Quick tier samples one fault per run; thorough enumerates every single duplication and every single loss of each sampled "
             "configuration (exhaustive for that finite sub-space only)."),
    "C09": dict(
        engine="predsim", design="6.9", category="exploration",
        technique=TECH + ": seeded prediction-call histories served by one shared holder across whole screens, plate views, unions and subsets; before/after digests; oracles on reached rows",
        text="Weak by design: only two clauses are decided by simulation -- a subset predicts exactly like the same rows of the whole "
             "screen under every partition, and no call mutates the samples or the screen (digests before/after every call, so results "
             "cannot depend on which worker ran first). The other clauses (loop reference, column symmetry, control neutrality, "
             "viability = clip(logistic), variance = 1/precision, stacked/averaged helpers) are evaluated on every row these histories reach.",
        note="Parameters are simulator-chosen arrays of both shipped sample types; arity 1 and 2; control in either or both columns."),
    "C10": dict(
        engine="holdersim", design="6.10", category="exploration",
        technique=TECH + ": holder operation machine against a Python list with save -> fresh process -> load; chain files arriving at the evaluate_model process in a seeded order; transient.h5.open in that process; torn archives",
        text="(a) Histories of add/get/save/load/combine/concat on holders of both sample types with float64-adversarial values "
             "(denormals, values lost in float32, signed zeros), >= 10 samples in a share of runs, empty single-effect tables; reloaded "
             "samples must be bit-identical, in order, and predict identically; over-filling, out-of-range access and saving empty must "
             "be refused. (b) 1-4 chain files of unequal length (synthetic or trained by real train_model processes) reach "
             "evaluate_model in a seeded arrival order; prediction columns and chain ids must follow the chain-major concatenation in "
             "exactly that order.",
        note="All samples of a holder share their shared parameters (the file format stores them once)."),
    "C04": dict(
        engine="twinsim", design="6.4", category="fault_enumeration",
        technique=TECH + ": twin runs of a whole simulated round differing only in the injected fault store.poison-masked; artefact-by-artefact logical digests; training-set reference; fail-stop probes; transient.model.step (a failing Gibbs step) in the training process",
        text="The whole round (train x chains -> distance x chunks -> scores x chunks -> select, real CLI processes) is made a "
             "deterministic function of (files, seeds, entropy, schedule) and run twice: on the clean screen file and on a copy whose "
             "masked observation cells were overwritten (junk, 0, 1, negative, NaN, inf, mixed). Arrays handed to the model, every theta "
             "file, distance chunk, score chunk and the selected plate must be identical. The training arrays are also compared with "
             "the documented training set built from reference rows (both shipped models, single-effect table included), and "
             "poisoned observed values / masked rows must be refused (function and CLI level).",
        note="Found two genuine defects of the interaction model on the pinned tree (trained on all-control rows; accepted negative/NaN), "
             "both repaired by fix: commits. <= 40 rows, <= 2 chains x 3 samples."),
    "C17": dict(
        engine="samplesim", design="6.17", category="exploration",
        technique=TECH + ": stepper harness around sampling.sample (event history of a fake model, model.dirty fault) plus real train_model processes launched in seeded order under different process entropy; generator fingerprints; transient.model.step on the fake model",
        text="sampling.sample drives a fake MCMC / VI model logging reset / set_rng / step / record; the event history must be "
             "reset + set_rng before the first step, exactly b + n*t steps, records right after steps b+t, ..., b+n*t, a complete "
             "collection; VI: one sample(n) call. The generator handed to the model is fingerprinted (first 1024 raw outputs): equal "
             "for equal (seed, n_chains, index) under any launch order / entropy / interleaved global draws, different and disjoint for "
             "different indices. A sampled share runs real train_model processes for every chain index (one relaunched later) with "
             "counters wrapped around the real sampler.",
        note="Order of reset vs set_rng is not part of the statement. A chance overlap of two 64-bit streams within 1024 outputs has probability < 2^-40."),
    "C18": dict(
        engine="twinsim", design="6.18", category="exploration",
        technique=TECH + ": twin runs differing only in process entropy (global numpy/stdlib state, OS entropy, interleaved unrelated draws, fresh interpreter under another PYTHONHASHSEED); output and global-state equality; tripwires for attribution; simulated wall clock / pid / directory order and a simulator-owned thread schedule that differ between the twins; transient faults inside a step (must fail or produce the undisturbed output)",
        text="Every randomised operation the statement lists, at function level and as CLI processes with --seed, is executed as a twin "
             "pair with identical inputs and identically seeded generator but different process entropy and k unrelated global draws in "
             "between (thorough: second twin in a fresh interpreter under another hash seed). Judged: outputs identical; global numpy and "
             "stdlib state unchanged by the operation. Tripwires on numpy's global sampling functions and on seedless default_rng() name "
             "the call sites in the finding's signature.",
        note="Found the two defects the property anticipates on the pinned tree (calculate_scores ignored --seed; the Gibbs samplers drew "
             "from global state / OS entropy), both repaired by fix: commits."),
    "C19": dict(
        engine="orchsim", design="6.19", category="fault_enumeration",
        technique=TECH + ": the real orchestration script under crash/restart with proxied os/shutil/glob/subprocess, a stubbed nextflow (DAG, seeded completion order, per-file publication), census-based crash placement, reference trace + reference model of the orchestration; crash delivery as kill / non-zero exit / Ctrl-C; simulator-owned thread schedule",
        text="The real nextflow/scripts/batchie.py runs in a fresh module instance per (re)start against a scratch output tree; every "
             "primitive file-system effect (each mkdir inside makedirs, each entry removed by rmtree), every launch, every process "
             "completion and every published file of the stubbed workflows is a crash site. A fault-free census run under the same "
             "seed numbers the sites and yields the reference trace; faulty runs place 1-2 (thorough: up to 3, and ALL single sites of "
             "sampled configurations) crashes, restart, and delete exactly the directories the script names. Oracles: completed steps "
             "are never deleted or re-executed; every recorded step has the reference step's inputs and selection; the step sequence "
             "has no gap; each step starts from its predecessor's output with the batch's excludes and the iteration's thetas "
             "(reference model); bounded liveness (restart budget, launch cap, no restart dying without naming a directory).",
        note="nextflow itself is a hand-written stub (cross-checked against the .nf sources at every start; mismatch = harness error). "
             "Publication is per-file atomic and in completion order (publishDir default symlink mode); asynchronous publication order is "
             "not part of the fault model (available behind VERIF_PUBLISH_REORDER=1, see DESIGN). MODEL process bodies by default, REAL "
             "CLI bodies in ~1% of runs. Found two genuine defects on the pinned tree (empty iteration directory; marker-before-outputs "
             "in prospective mode), both repaired by fix: commits in the script."),
    "C08": dict(
        engine="gibbssim", design="6.8", category="exploration",
        technique=TECH + ": the Gibbs sampler stepped under an RNG seam (every draw an observable event served by the simulator), numeric.cholesky and rng.extreme faults, reference conditionals derived by probing the exported prediction function",
        text="A recording proxy is installed as the sampler's generator (and as numpy's module-level random in the model module), and "
             "sample_mvn_from_precision is wrapped: every draw becomes an event (block, index, kind, requested parameters). At each "
             "event the requested parameters are compared with the full conditional computed from the state at that instant: design "
             "matrices by probing the exported prediction function (affine in one block), prior precisions from the state, sufficient "
             "statistics from scratch. After every block: cache = from-scratch fitted values, draw counts, precision bounds, intercept; "
             "per step: documented block order; after an injected Cholesky failure the row is unchanged and the cache consistent; the "
             "exported sample reproduces fitted values and 1/precision; the multivariate draw is checked algebraically (A A' = Q^-1, m = Q^-1 b).",
        note="Precondition stated in DESIGN 6.8: no row uses the same non-control treatment in both positions. The oracle checks parameters "
             "of draws, not samples. Tolerance 1e-4 relative to each quantity's float32 scale (running maximum within a step); the noise "
             "precision bound is not judged for an empty training set."),
    "C16": dict(
        engine="batchsim", design="6.16", category="exploration",
        technique=TECH + ": the batch loop with simulator-chosen winners (search over selection schedules), function level and select/reveal processes with reload in between; state invariants at every reachable (batch, remaining) state; input.torn-file (a cut-off score chunk file), score regimes with infinities",
        text="Batches are grown from the empty batch by repeated select_next_plate under the real KPerSamplePlatePolicy (behind a "
             "recording wrapper); the simulator scripts the scores so that every allowed plate is the winner somewhere (thorough: all "
             "winners of small screens are walked). At every reached state: allowed is a subset of unobserved non-batch plates; with a "
             "sample in progress exactly that sample's remaining plates are allowed and at least one is; a sample is opened only with "
             ">= k plates remaining; at most one incomplete sample per prefix; zero or k plates per sample at multiples of k; an "
             "unobserved multi-sample plate is refused. The process-level variant passes the batch on the command line and reveals "
             "each selected plate in between.",
        note="Scores are simulator-chosen (the scorer is not part of this property). <= 6 samples x <= 6 plates, k <= 4, <= 3k selections."),
}

NOT_APPLICABLE = {
    "C15": "pure integer function (combination unranking): a bijection over all (n,k,index) is enumeration/algebra, i.e. model checking or proof; no schedule, process boundary, entropy, history or fault enters (DESIGN 6.15)",
    "C20": "closed-form functions of their array arguments (MSE, variances, Bliss synergy, similarity): recomputing them on generated arrays is differential testing of pure functions, not simulation (DESIGN 6.20)",
}

NOT_YET = {}


def main():
    from simkit.runner import REGISTRY

    all_ids = [json.loads(l)["id"] for l in open(os.path.join(HERE, "properties.jsonl"))]
    checks = []
    for pid in all_ids:
        if pid not in CHECKS:
            continue
        c = CHECKS[pid]
        assert pid in REGISTRY, pid
        checks.append(dict(
            property_id=pid,
            quick_cmd=f"./vcheck {pid} --tier quick",
            thorough_cmd=f"./vcheck {pid} --tier thorough",
            evidence_file=f"/verif/evidence/{pid}.json",
            replay_cmd_template="./vcheck replay {path}",
            engine=c["engine"],
            level_claimed=dict(category=c["category"], text=c["text"], design_ref=f"DESIGN.md section {c['design']}"),
            level_note=c["note"],
            technique=c["technique"],
        ))
    na = []
    for pid in all_ids:
        if pid in CHECKS:
            continue
        if pid in NOT_APPLICABLE:
            na.append(dict(property_id=pid, reason=NOT_APPLICABLE[pid]))
        else:
            na.append(dict(property_id=pid, reason=NOT_YET.get(pid, "not claimed yet: the engine designed for it in DESIGN.md is not built/validated at this commit")))
    engines = {}
    for pid, c in CHECKS.items():
        engines.setdefault(c["engine"], []).append(pid)
    man = dict(
        version=1,
        setup_cmd="/venv/bin/python -c \"import hypothesis, numpy, h5py, batchie\" && chmod +x /verif/vcheck",
        hooks=dict(
            guard="BATCHIE_VERIF",
            enable="none needed: every seam is substituted from outside (module attributes, sys.argv, loaded-by-path script); checks import batchie from $VERIF_REPO/src (default /repo/src)",
            baseline_off_cmd="cd /repo && /venv/bin/python -m pytest -ra -q -p no:cacheprovider --timeout=900 --continue-on-collection-errors",
            source_commits=[],
            add_only=True,
        ),
        engines=[dict(name=k, path=f"/verif/engines/{k}.py", serves_properties=sorted(v),
                      kind_free_text="deterministic simulation engine (seeded plan generation + pure plan execution + oracles)")
                 for k, v in sorted(engines.items())],
        checks=checks,
        not_applicable=na,
        notes="All checks: ./vcheck <ID> --tier quick|thorough; VERIF_SEED selects the batch seed; replay with ./vcheck replay <file>; "
              "self tests: ./vcheck selftest determinism, ./vcheck selftest mutants. Genuine defects: known_findings.json.",
    )
    with open(os.path.join(HERE, "MANIFEST.json"), "w") as f:
        json.dump(man, f, indent=1)
    print("wrote MANIFEST.json with", len(checks), "checks,", len(na), "not claimed")


if __name__ == "__main__":
    main()
