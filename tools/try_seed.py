#!/venv/bin/python
"""Evaluate a seeded change (patch.diff + demo) against the checks WITHOUT touching /repo:
a scratch copy of the repository is made outside /repo and /verif, the patch is applied there,
the demonstration is run on the clean and on the patched copy, the shipped test-suite is run on
the patched copy, and the property's check is pointed at it through VERIF_REPO.

usage: tools/try_seed.py <dir with patch.diff [demo.py|demo_test.py] meta.json> [--tier quick|thorough] [--props C03,C12] [--skip-tests]
"""
import argparse
import json
import os
import shutil
import subprocess
import sys
import time

HERE = os.path.dirname(os.path.dirname(os.path.abspath(__file__)))
sys.path.insert(0, HERE)
from simkit import mutants  # noqa: E402

PY = "/venv/bin/python"


def run(cmd, env=None, cwd=None, timeout=1800):
    p = subprocess.run(cmd, capture_output=True, text=True, env=env, cwd=cwd, timeout=timeout)
    return p.returncode, p.stdout, p.stderr


def demo_cmd(d):
    if os.path.exists(os.path.join(d, "demo.py")):
        return [PY, os.path.join(d, "demo.py")]
    for f in sorted(os.listdir(d)):
        if f.startswith("demo") and f.endswith(".py"):
            return [PY, "-m", "pytest", "-q", "-x", "-p", "no:cacheprovider", os.path.join(d, f)]
    return None


def main():
    ap = argparse.ArgumentParser()
    ap.add_argument("dir")
    ap.add_argument("--tier", default="quick")
    ap.add_argument("--props", default=None)
    ap.add_argument("--skip-tests", action="store_true")
    ap.add_argument("--runs", default=None)
    a = ap.parse_args()
    d = os.path.abspath(a.dir)
    meta = json.load(open(os.path.join(d, "meta.json")))
    props = a.props.split(",") if a.props else [meta["property"]]
    report = dict(dir=d, property=meta["property"], summary=meta.get("summary"))
    clean = mutants.make_copy()
    patched = mutants.make_copy()
    try:
        rc, out, err = run(["patch", "-p1", "-i", os.path.join(d, "patch.diff")], cwd=patched)
        report["patch_applies"] = rc == 0
        if rc != 0:
            print(out, err)
            print(json.dumps(report, indent=1))
            return 2
        dc = demo_cmd(d)
        if dc:
            for name, root in (("clean", clean), ("patched", patched)):
                env = dict(os.environ, PYTHONPATH=os.path.join(root, "src"), REPO_ROOT=root)
                rc, out, err = run(dc, env=env, cwd=root, timeout=600)
                report[f"demo_{name}_rc"] = rc
                if (name == "clean" and rc != 0) or (name == "patched" and rc == 0):
                    print(f"--- demo on {name} rc={rc}\n{out[-1500:]}\n{err[-1500:]}")
        if not a.skip_tests:
            env = dict(os.environ, PYTHONPATH=os.path.join(patched, "src"))
            t0 = time.time()
            rc, out, err = run([PY, "-m", "pytest", "-q", "-p", "no:cacheprovider", "--timeout=900", os.path.join(patched, "src", "batchie")],
                               env=env, cwd=patched, timeout=1500)
            report["suite_rc"] = rc
            report["suite_tail"] = (out.strip().splitlines() or [""])[-1]
            report["suite_s"] = round(time.time() - t0)
        for prop in props:
            rc, out, err, wall = mutants.run_check_on(patched, prop, a.tier, runs=a.runs)
            first = next((line for line in out.splitlines() if line.startswith("violation:")), "")
            report[f"check_{prop}"] = dict(rc=rc, caught=(rc == 1 and f"VIOLATION property={prop}" in out), wall=round(wall, 1),
                                           first=first[:300])
            if rc == 2:
                print(out[-2500:], err[-1500:])
    finally:
        shutil.rmtree(clean, ignore_errors=True)
        shutil.rmtree(patched, ignore_errors=True)
    print(json.dumps(report, indent=1))
    return 0


if __name__ == "__main__":
    sys.exit(main())
