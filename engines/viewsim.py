"""viewsim: histories over views (ScreenSubset / Plate) of one or two base screens.

No I/O and no faults: what is simulated is the *history* dimension -- views alias their parent
and each other, so every invariant is checked on every live view after every operation, not
only on the view an operation returns.  Reference: a frozenset of parent row indices per view.
Serves C14.
"""
from __future__ import annotations

import json

import numpy as np

from simkit import gen, launch, ref
from simkit.kernel import EventLog, Forks, RunStats, Violation, digest, f64_bits, sub_rng

SPEC = {
    "C14": dict(engine="viewsim", level="exploration", runs=dict(quick=2500, thorough=24000), chunk=20,
                rule="seeded histories of subset / subset-of-subset / combine / concat / invert / observed / unobserved / "
                     "get_plate / plates / to_screen / unique-filter / cross-screen combine over a pool of <= 12 live views of two "
                     "base screens; after every operation every live view is compared with its reference index set; non-trivial if "
                     "at least one subset-of-subset or combine/concat was executed while >= 2 other views were live; distinct = "
                     "distinct (operation multiset, max pool size, empty/full selections seen) tuples",
                real=["batchie.data.Screen.subset / subset_observed / subset_unobserved / get_plate / plates",
                      "batchie.data.ScreenSubset (attribute properties, subset, combine, concat, invert, to_screen), Plate",
                      "batchie.data.filter_dataset_to_unique_treatments, batchie.common.select_unique_zipped_numpy_arrays"],
                stub=["none (no I/O, no processes: history-only simulation, said plainly)"],
                assumptions=["screens <= 40 rows, <= 30 operations per history",
                             "Plate.merge is not part of the property's operation list and is not exercised here"]),
}

OPS = ["subset", "subset", "subsub", "subsub", "subsub", "combine", "combine", "concat", "concat", "invert",
       "observed", "observed", "unobserved", "get_plate", "plates", "to_screen", "unique", "cross", "subset_extreme",
       "set_observed", "set_observed", "read", "merge_base_plates"]


def preload(prop):
    launch.quiet()


def gen_plan(prop, run_seed, tier):
    F = Forks(run_seed)
    w, s = F.fork("workload"), F.fork("schedule")
    specs = [gen.gen_screen(w, n_rows=w.randint(3, 30), dup_rate=0.35, observed_rate=w.choice([0.0, 0.4, 0.6, 1.0])),
             gen.gen_screen(w, n_rows=w.randint(2, 12))]
    for sp in specs:
        if w.random() < 0.25:
            gen.add_space_extra(w, sp)
    n = s.randint(3, 16 if tier == "quick" else 30)
    steps = [dict(op=s.choice(OPS), sub=s.randrange(2**31)) for _ in range(n)]
    return dict(engine="viewsim", prop=prop, screens=specs, steps=steps, same_instant=(s.randrange(1, 2**31) if s.random() < 0.3 else None))


class V:
    __slots__ = ("view", "base", "idx", "live_observed")

    def __init__(self, view, base, idx, live_observed=False):
        self.view, self.base, self.idx = view, base, frozenset(idx)
        # the observed view is handed the screen's own mask array: it may (or may not) follow later reveals
        self.live_observed = live_observed


def execute(prop, plan):
    launch.quiet()
    log, stats, viol = EventLog(), RunStats(), []

    def violation(oid, trigger, msg):
        sig = f"{oid}/{trigger}"
        log.ev("violation", sig)
        if not any(v["signature"] == sig for v in viol):
            viol.append(Violation(prop, oid, sig, msg))

    try:
        if plan.get("same_instant"):
            # both parent screens come into being at the same clock reading in the same process (a coarse clock, a fast
            # machine): they are still two different screens
            import batchie.data  # noqa: F401  (module import is not part of the moment)
            with launch.SimEnv(plan["same_instant"], frozen_clock=True):
                bases = [gen.make_screen(sp) for sp in plan["screens"]]
            stats.probe("parents_built_at_the_same_instant")
        else:
            bases = [gen.make_screen(sp) for sp in plan["screens"]]
    except Exception as e:
        log.ev("not-constructible", type(e).__name__)
        return dict(digest=log.digest(), violations=viol, stats=stats.to_dict(), log_head=log.head)
    # reference attribute tables: content from the plan, ids snapshotted from the parent at creation
    tables = []
    for sp, b in zip(plan["screens"], bases):
        rows = ref.content_rows(b)
        ids = ref.row_ids(b)
        tables.append((rows, ids))
    pool = []
    opsdone = []
    seen_flags = set()
    maxpool = 0

    def rand_bool(rnd, n):
        mode = rnd.random()
        if mode < 0.12:
            return np.zeros(n, dtype=bool)
        if mode < 0.24:
            return np.ones(n, dtype=bool)
        p = rnd.choice([0.2, 0.5, 0.8])
        return np.array([rnd.random() < p for _ in range(n)], dtype=bool)

    def add(view, base, idx, live_observed=False):
        # an operation may hand back an existing object (concat of one element): it keeps that object's nature
        for other in pool:
            if other.view is view or getattr(other.view, "selection_vector", None) is getattr(view, "selection_vector", 0):
                live_observed = live_observed or other.live_observed
        pool.append(V(view, base, idx, live_observed))
        if len(pool) > 12:
            del pool[0]

    ste_cache = {}

    def check_view(v, when):
        stats.oracle_evals += 1
        rows, ids = tables[v.base]
        n = len(rows)
        want_sel = np.array([i in v.idx for i in range(n)], dtype=bool)
        view = v.view
        sel = np.asarray(view.selection_vector)
        if sel.dtype != bool or sel.shape != (n,) or not np.array_equal(sel, want_sel):
            violation("C14.selection", when, f"selection vector {sel.astype(int).tolist()} != reference {want_sel.astype(int).tolist()}")
            return False
        order = sorted(v.idx)
        exp_rows = [rows[i] for i in order]
        exp_ids = [ids[i] for i in order]
        got_rows = ref.subset_content_rows(view)
        if got_rows != exp_rows:
            violation("C14.attributes", when, "view content differs from parent rows at the selected indices in parent order")
            return False
        # attribute properties of the view itself
        try:
            tn = np.asarray(view.treatment_names)
            td = np.asarray(view.treatment_doses)
            sn = np.asarray(view.sample_names).tolist()
            ob = f64_bits(view.observations).tolist()
            mk = np.asarray(view.observation_mask).tolist()
            sid = np.asarray(view.sample_ids).tolist()
            tid = np.asarray(view.treatment_ids).tolist()
            pid = np.asarray(view.plate_ids).tolist()
            size = view.size
        except Exception as e:
            violation("C14.attributes-raise", when, f"attribute access raised {e!r}")
            return False
        k = len(order)
        ok = (size == k and sn == [r[0] for r in exp_rows] and ob == [r[2] for r in exp_rows]
              and [bool(x) for x in mk] == [r[4] for r in exp_rows]
              and [int(x) for x in sid] == [i[0] for i in exp_ids]
              and [tuple(int(y) for y in x) for x in tid] == [i[1] for i in exp_ids]
              and [int(x) for x in pid] == [i[2] for i in exp_ids]
              and [tuple(ref.tkey(a, b) for a, b in zip(tn[j], td[j])) for j in range(k)] == [r[1] for r in exp_rows])
        if not ok:
            violation("C14.attributes", when, "a per-experiment attribute of the view differs from the parent's values at the selected rows")
            return False
        # the derived per-experiment table (single-treatment effects) is the parent's too, row for row
        if sweep[0] % 3 != 1:
            return True  # (the derived table is compared in every third sweep: it is the expensive one)
        if v.base not in ste_cache:
            try:
                ste_cache[v.base] = bases[v.base].single_treatment_effects
            except Exception:
                ste_cache[v.base] = "raises"
        parent_ste = ste_cache[v.base]
        if not isinstance(parent_ste, str):
            try:
                view_ste = view.single_treatment_effects
            except Exception as e:
                violation("C14.attributes-raise", when + ":single_treatment_effects", f"the parent has single-treatment effects, the view raised {e!r}")
                return False
            if (parent_ste is None) != (view_ste is None):
                violation("C14.attributes", when + ":single_treatment_effects", "single-treatment effects are None for the view but not the parent (or the reverse)")
                return False
            if parent_ste is not None:
                want_ste = np.asarray(parent_ste, dtype=float)[want_sel]
                got_ste = np.asarray(view_ste, dtype=float)
                if got_ste.shape != want_ste.shape or f64_bits(got_ste).tolist() != f64_bits(want_ste).tolist():
                    violation("C14.attributes", when + ":single_treatment_effects",
                              "the view's single-treatment effects are not the parent's values at the selected rows")
                    return False
        return True

    sweep = [0]

    def check_all(when):
        ste_cache.clear()  # the parents may have been edited since the last sweep
        sweep[0] += 1
        for j, v in enumerate(pool):
            log.ev("view", j, v.base, sorted(v.idx))
            check_view(v, when)

    for i, st in enumerate(plan["steps"]):
        rnd = sub_rng(st["sub"], "view")
        op = st["op"]
        stats.steps += 1
        log.ev("step", i, op)
        try:
            if op in ("subset", "subset_extreme") or not pool and op not in ("observed", "unobserved", "get_plate", "plates", "cross"):
                b = rnd.randrange(2)
                n = bases[b].size
                selv = rand_bool(rnd, n)
                if op == "subset_extreme":
                    selv = np.zeros(n, dtype=bool) if rnd.random() < 0.5 else np.ones(n, dtype=bool)
                view = bases[b].subset(selv)
                add(view, b, np.where(selv)[0].tolist())
                opsdone.append("subset")
                if not selv.any():
                    seen_flags.add("empty")
                if selv.all():
                    seen_flags.add("full")
            elif op == "subsub":
                v = rnd.choice(pool)
                order = sorted(v.idx)
                inner = rand_bool(rnd, len(order))
                others = len(pool) - 1
                view = v.view.subset(inner)
                add(view, v.base, [order[j] for j in range(len(order)) if inner[j]])
                opsdone.append("subsub")
                if others >= 2:
                    stats.nontrivial = True
            elif op == "combine":
                v1 = rnd.choice(pool)
                same = [x for x in pool if x.base == v1.base]
                v2 = rnd.choice(same)
                view = v1.view.combine(v2.view)
                if len(pool) >= 3:
                    stats.nontrivial = True
                add(view, v1.base, v1.idx | v2.idx)
                opsdone.append("combine")
            elif op == "concat":
                v1 = rnd.choice(pool)
                same = [x for x in pool if x.base == v1.base]
                k = rnd.randint(1, min(4, len(same)))
                if rnd.random() < 0.04:  # very many (overlapping, repeated) views in one call
                    k = rnd.choice([255, 256, 257, 300, 512, 513])
                chosen = [v1] + [rnd.choice(same) for _ in range(k - 1)]
                view = type(v1.view).concat([c.view for c in chosen])
                idx = frozenset().union(*[c.idx for c in chosen])
                if len(pool) >= 3 and k >= 2:
                    stats.nontrivial = True
                add(view, v1.base, idx)
                opsdone.append(f"concat{min(k, 2)}")
            elif op == "invert":
                v = rnd.choice(pool)
                view = v.view.invert()
                n = bases[v.base].size
                add(view, v.base, set(range(n)) - v.idx)
                opsdone.append("invert")
            elif op in ("observed", "unobserved"):
                b = rnd.randrange(2)
                rows, _ = tables[b]
                want = [j for j, r in enumerate(rows) if r[4] == (op == "observed")]
                view = bases[b].subset_observed() if op == "observed" else bases[b].subset_unobserved()
                if view is None:
                    if want:
                        violation("C14.observed-split", op, f"{op} view is None although rows {want[:5]} qualify")
                else:
                    if not want:
                        violation("C14.observed-split", op, f"{op} view returned although no row qualifies")
                    add(view, b, want, live_observed=(op == "observed"))
                opsdone.append(op)
            elif op == "get_plate":
                b = rnd.randrange(2)
                rows, ids = tables[b]
                pids = sorted({x[2] for x in ids})
                p = rnd.choice(pids + [max(pids) + 1])
                view = bases[b].get_plate(p)
                add(view, b, [j for j, x in enumerate(ids) if x[2] == p])
                opsdone.append("get_plate")
            elif op == "plates":
                b = rnd.randrange(2)
                rows, ids = tables[b]
                pl = bases[b].plates
                pids = sorted({x[2] for x in ids})
                if len(pl) != len(pids):
                    violation("C14.plates", "plates", f"{len(pl)} plate views for {len(pids)} plate ids")
                for p, view in zip(pids, pl):
                    tmp = V(view, b, [j for j, x in enumerate(ids) if x[2] == p])
                    ste_cache.clear()
                    if not check_view(tmp, "plates"):
                        break
                    try:
                        if int(view.plate_id) != p:
                            violation("C14.plates", "plate_id", f"plate view reports id {view.plate_id}, expected {p}")
                    except Exception as e:
                        violation("C14.plates", "plate_id", f"plate_id raised {e!r}")
                if pl:
                    j = rnd.randrange(len(pl))
                    add(pl[j], b, [q for q, x in enumerate(ids) if x[2] == pids[j]])
                opsdone.append("plates")
            elif op == "to_screen":
                v = rnd.choice(pool)
                rows, _ = tables[v.base]
                order = sorted(v.idx)
                try:
                    scr = v.view.to_screen()
                except Exception as e:
                    log.ev("to_screen-raised", type(e).__name__, len(order))
                    scr = None
                    if order:
                        violation("C14.to-screen-raised", type(e).__name__, f"to_screen of a non-empty view raised {e!r}")
                if scr is not None:
                    stats.oracle_evals += 1
                    got = ref.content_rows(scr)
                    if got != [rows[j] for j in order]:
                        violation("C14.to-screen", "rows", "materialised screen does not hold the same rows in the same order")
                    if str(scr.control_treatment_name) != str(bases[v.base].control_treatment_name):
                        violation("C14.to-screen", "control-name", "materialised screen lost the control name")
                opsdone.append("to_screen")
            elif op == "unique":
                from batchie.data import filter_dataset_to_unique_treatments

                if pool and rnd.random() < 0.7:
                    v = rnd.choice(pool)
                    src, b, base_idx = v.view, v.base, sorted(v.idx)
                else:
                    b = rnd.randrange(2)
                    src, base_idx = bases[b], list(range(bases[b].size))
                _, ids = tables[b]
                view = filter_dataset_to_unique_treatments(src)
                sel = np.asarray(view.selection_vector)
                got = np.where(sel)[0].tolist()
                stats.oracle_evals += 1
                keys_in = {}
                for j in base_idx:
                    keys_in.setdefault((ids[j][0], ids[j][1]), []).append(j)
                keys_out = {}
                for j in got:
                    keys_out.setdefault((ids[j][0], ids[j][1]), []).append(j)
                if not set(got) <= set(base_idx):
                    violation("C14.unique-filter", "outside", "unique filter selected a row outside its input")
                elif set(keys_out) != set(keys_in) or any(len(x) != 1 for x in keys_out.values()):
                    violation("C14.unique-filter", "keys", f"unique filter kept {sorted(map(len, keys_out.values()))} rows per condition "
                              f"for {len(keys_in)} distinct conditions ({len(keys_out)} present)")
                else:
                    if any(len(x) > 1 for x in keys_in.values()):
                        stats.probe("unique_filter_dropped_duplicates")
                    add(view, b, got)
                opsdone.append("unique")
            elif op == "read":
                # a consumer reads attributes of some live views (this is when lazily cached state would be filled)
                for v in pool[: 4]:
                    _ = v.view.size, v.view.sample_ids, v.view.observations
                opsdone.append("read")
            elif op == "set_observed":
                b = rnd.randrange(2)
                rows, ids = tables[b]
                plates = sorted({r[3] for r in rows if not r[4]})
                if plates:
                    chosen = set(rnd.sample(plates, rnd.randint(1, len(plates))))
                    selv = np.array([r[3] in chosen for r in rows], dtype=bool)
                    vals = np.array([rnd.random() for _ in range(int(selv.sum()))], dtype=float)
                    bases[b].set_observed(selv, vals)
                    bits = iter(f64_bits(vals).tolist())
                    new_rows = [(r[0], r[1], int(next(bits)) if sv else r[2], r[3], True if sv else r[4]) for r, sv in zip(rows, selv)]
                    tables[b] = (new_rows, ids)
                    observed_now = frozenset(i for i, r in enumerate(new_rows) if r[4])
                    for v in pool:
                        if v.base == b and v.live_observed:
                            actual = frozenset(np.where(np.asarray(v.view.selection_vector))[0].tolist())
                            if actual == observed_now:
                                v.idx = observed_now  # the view follows the mask it was handed (live view)
                    stats.probe("set_observed_on_base_with_live_views")
                    stats.nontrivial = stats.nontrivial or len(pool) >= 2
                opsdone.append("set_observed")
            elif op == "merge_base_plates":
                # two plates of a parent are merged IN PLACE (what the plate smoothers do): rows keep everything but
                # their plate label / plate id; live views keep selecting the same rows
                b = rnd.randrange(2)
                rows, ids = tables[b]
                by = {}
                for r in rows:
                    by.setdefault(r[3], set()).add(r[4])
                cands = [[p for p, stt in by.items() if stt == {flag}] for flag in (True, False)]
                cands = [sorted(c) for c in cands if len(c) >= 2]
                if cands:
                    grp = rnd.choice(cands)
                    pa, pb = rnd.sample(grp, 2)
                    handles = {str(p.plate_name): p for p in bases[b].plates}
                    try:
                        handles[pa].merge(handles[pb])
                    except Exception as e:
                        violation("C14.merge-raised", type(e).__name__, f"merging two plates of equal status raised {e!r}")
                        break
                    now_rows, now_ids = ref.content_rows(bases[b]), ref.row_ids(bases[b])
                    survivors = {nr[3] for r, nr in zip(rows, now_rows) if r[3] in (pa, pb)}
                    ok = len(survivors) == 1 and survivors <= {pa, pb} and all(
                        (r[0], r[1], r[2], r[4]) == (nr[0], nr[1], nr[2], nr[4]) and (nr[3] == r[3] or r[3] in (pa, pb))
                        for r, nr in zip(rows, now_rows)) and all(i[:2] == ni[:2] for i, ni in zip(ids, now_ids))
                    if not ok:
                        violation("C14.merge-changed-rows", "Plate.merge", "merging two plates changed more than the plate label of their rows")
                        break
                    tables[b] = (now_rows, now_ids)  # (which of the two names survives, and the new plate ids, are the object's to say)
                    stats.probe("base_plates_merged_in_place")
                opsdone.append("merge_base_plates")
            elif op == "cross":
                a = [x for x in pool if x.base == 0]
                c = [x for x in pool if x.base == 1]
                if a and c:
                    va, vc = rnd.choice(a), rnd.choice(c)
                    stats.oracle_evals += 1
                    for name, fn in (("combine", lambda: va.view.combine(vc.view)),
                                     ("concat", lambda: type(va.view).concat([va.view, vc.view]))):
                        try:
                            fn()
                        except ValueError:
                            stats.probe("cross_screen_refused")
                            continue
                        except Exception as e:
                            violation("C14.cross-screen", name + ":" + type(e).__name__, f"cross-screen {name} raised {e!r} instead of refusing cleanly")
                            continue
                        violation("C14.cross-screen", name, f"{name} of views of different parent screens did not refuse")
                    opsdone.append("cross")
        except Exception as e:
            violation("C14.operation-raised", f"{op}:{type(e).__name__}", f"operation {op} raised {e!r}")
        maxpool = max(maxpool, len(pool))
        check_all(f"after:{op}")
    if stats.nontrivial:
        stats.key(tuple(sorted(set(opsdone))), min(maxpool, 6), tuple(sorted(seen_flags)))
    return dict(digest=log.digest(), violations=viol, stats=stats.to_dict(), log_head=log.head)


def reducers(prop, plan):
    for b in range(2):
        rows = plan["screens"][b]["rows"]
        if len(rows) > 2:
            for i in range(len(rows)):
                cand = json.loads(json.dumps(plan))
                del cand["screens"][b]["rows"][i]
                yield cand
