"""prepsim: preparation histories -- chains of the shipped plate generators, smoothers, the
initial cover, the combination filter, reveals and the hold-out split, with parameters from
their whole legal range and a generator in any state.

What is simulated: (H) chaining -- intermediate screens (merged plates, a ''-named plate,
the observed part appended at the end, in-place Plate.merge on shared parents) are inputs no
fixture reaches; (R) generator state.  Every comparison is against a snapshot of the input
taken before the call.  Operations that raise are outside both quantifiers ("for which it
returns") and are logged, not judged.  Serves C11 (conservation) and C13 (shape guarantees).
"""
from __future__ import annotations

import heapq
import json
import math
import os

import numpy as np

from simkit import gen, launch, pipe, ref
from simkit.kernel import EventLog, Forks, RunStats, Violation, digest, sub_rng

REAL = ["batchie.retrospective: SparseCoverPlateGenerator, PairwisePlateGenerator, PlatePermutationPlateGenerator, "
        "SampleSegregatingPermutationPlateGenerator, MergeMin/MergeTopBottom/FixedSize/OptimalSize/NPlatePerCellLine/"
        "BatchieEnsemble smoothers, create_plate_balanced_holdout_set_among_masked_plates, create_random_holdout, reveal_plates, mask_screen",
        "batchie.core.RetrospectivePlateGenerator.generate_plates / RetrospectivePlateSmoother.smooth_plates wrappers",
        "batchie.data: Screen, Plate.merge, Screen.combine, ScreenSubset.to_screen, filter_dataset_to_treatments_that_appear_in_at_least_one_combo",
        "numpy.random.Generator (real, seeded, advanced by a seeded number of draws before use)"]
STUB = ["none: in-process function calls; no files"]

SPEC = {
    "C11": dict(engine="prepsim", level="exploration", runs=dict(quick=2500, thorough=24000), chunk=20,
                rule="seeded chains (1-6 operations) of generators / smoothers / cover / filter / reveal / mask / split on screens "
                     "with duplicate conditions, single-agent rows and observed + unobserved plates; every returning operation is "
                     "judged by multiset algebra against a snapshot of its input; non-trivial if a judged operation ran on the "
                     "output of an earlier operation of the chain; distinct = distinct (operation sequence, whether rows were "
                     "dropped, whether an observed part existed) tuples",
                real=REAL, stub=STUB,
                assumptions=["operations that raise are not judged", "screens <= 60 rows",
                             "ceil(fraction x size) is evaluated in double arithmetic exactly as written in the statement"]),
    "C13": dict(engine="prepsim", level="exploration", runs=dict(quick=2500, thorough=24000), chunk=20,
                rule="same chains as C11, biased to the corners the statement names (several samples at or below the size limit, "
                     "one plate, many plates, >= 2 samples below the per-sample minimum); every returning operation is judged "
                     "against its documented shape guarantee; non-trivial if a shape oracle was evaluated on an operation that "
                     "ran on the output of an earlier operation; distinct = distinct (operation sequence, corner flags) tuples",
                real=REAL, stub=STUB,
                assumptions=["operations that raise are not judged", "merge smoothers are judged only on inputs whose unobserved "
                             "plates are single-sample (their stated precondition)"]),
}

GENERATORS = ["pairwise", "permute", "segregate"]
SMOOTHERS = ["merge_min", "merge_top_bottom", "fixed_size", "optimal_size", "n_per_sample", "ensemble"]


def preload(prop):
    launch.quiet()
    import batchie.retrospective  # noqa
    if prop == "C11":
        launch.preload_cli()
        import batchie.cli.prepare_retrospective_simulation  # noqa


# ----------------------------------------------------------------------------- plans


def _gen_prep_screen(w, single_sample_plates, allow_arity=False):
    arity = w.choice([2, 2, 2, 2, 2, 2, 3, 3, 1]) if allow_arity else 2
    n_samples = w.randint(1, 5)
    samples = w.sample(gen.SAMPLE_POOLS["ascii"], n_samples)
    names = w.sample(gen.NAME_POOLS["ascii"], w.randint(2, 6))
    doses = [1.0, 2.0][: w.randint(1, 2)]
    control = w.choice(["", "control"])
    rows = []
    plate_no = 0
    bigs = w.random() < 0.06  # one to three samples with more experiments / plates than any plausible block size
    big_set = set(samples[: w.choice([1, 1, 2, 3])]) if bigs else set()
    for s in samples:
        n_rows = w.choice([1, 2, 3, 4, 5, 6, 8, 12])
        n_pl = w.randint(1, min(4, n_rows))
        if s in big_set:
            n_rows = w.choice([40, 70, 130])
            n_pl = w.choice([2, 9, 33])
        plates = [f"pl{plate_no + k}" for k in range(n_pl)]
        plate_no += n_pl
        for _ in range(n_rows):
            if rows and w.random() < 0.15:
                src = w.choice(rows)
                tr = [list(t) for t in src[1]]
            else:
                tr = []
                for k in range(arity):
                    u = w.random()
                    if u < 0.15:
                        tr.append([control, 0.0])
                    elif u < 0.22:
                        tr.append([w.choice(names), 0.0])
                    else:
                        tr.append([w.choice(names), w.choice(doses)])
            rows.append([s, tr, w.uniform(0.05, 0.95), w.choice(plates), None])
    if not single_sample_plates:
        pool = [f"pl{k}" for k in range(max(1, plate_no // 2))]
        for r in rows:
            r[3] = w.choice(pool)
    obs_rate = w.choice([0.0, 0.0, 0.3, 0.5, 1.0])
    st = {}
    for r in rows:
        if r[3] not in st:
            st[r[3]] = w.random() < obs_rate
        r[4] = st[r[3]]
    if w.random() < 0.2:
        # plates that came from the lab carry long labels sharing a long prefix (longer than any generated label)
        ren = {p: f"2019-03-14_run_A_plate_{k:02d}" for k, p in enumerate(sorted(st))}
        for r in rows:
            r[3] = ren[r[3]]
    w.shuffle(rows)
    return dict(control=control, arity=arity, rows=rows)


def _gen_step(s, kind=None):
    kind = kind or s.choice(GENERATORS + SMOOTHERS * 2 + ["cover", "filter", "reveal", "reveal", "mask", "split", "random_holdout"])
    st = dict(op=kind, seed=s.randrange(2**31), advance=s.choice([0, 0, 1, 7, 100]))
    if kind == "pairwise":
        st["params"] = dict(subset_size=s.randint(1, 3), anchor_size=s.choice([0, 0, 1, 2]))
    elif kind == "permute":
        # the optional list may name a plate twice, name plates that do not exist or are observed, or be empty
        st["params"] = dict(force=s.choice([None, None, ["pl0"], ["pl1", "generated_plate_0"], ["pl0", "pl0"], ["pl1", "pl0", "pl1"],
                                            [], ["no_such_plate"], ["pl2", "pl1", "pl0", "pl3"]]))
    elif kind == "segregate":
        st["params"] = dict(max_plate_size=s.choice([1, 2, 3, 4, 5, 8, 50]))
    elif kind == "merge_min":
        st["params"] = dict(min_size=s.choice([1, 2, 3, 4, 6, 10, 100]))
    elif kind == "merge_top_bottom":
        st["params"] = dict(n_iterations=s.choice([0, 1, 1, 2, 3]))
    elif kind == "fixed_size":
        st["params"] = dict(plate_size=s.choice([1, 2, 3, 4, 6]))
    elif kind == "n_per_sample":
        st["params"] = dict(min_n=s.choice([1, 2, 2, 3, 4]))
    elif kind == "ensemble":
        st["params"] = dict(min_size=s.choice([2, 4, 8]), n_iterations=s.choice([0, 1, 2]), min_n=s.choice([1, 2, 3]))
    elif kind == "cover":
        st["params"] = dict(reveal_single=s.random() < 0.5)
    elif kind in ("split", "random_holdout"):
        st["params"] = dict(fraction=s.choice([0.0, 0.1, 0.3, 0.5, 0.7, 1.0, 1.0 / 3.0, 0.25, 0.75, 2.0 / 3.0, 0.9, 0.99, 0.01, 1e-9, 1e-17, 1e-300, 5e-324, 5.0 / 11.0]))
    else:
        st["params"] = {}
    return st


def _gen_many_plates(w, s, prop):
    """A screen that the generators cut into MANY plates (1 001 ... 10 050): plate names / counters / ids past every
    power of ten that a fixed-width buffer or a text sort might assume."""
    if w.random() < 0.5:
        # samples holding EXACT multiples of a (large) size limit: every boundary row sits exactly on a plate boundary
        m = w.choice([7, 49, 50, 96, 98, 103, 107, 161, 187])
        rows = []
        for i, mult in enumerate([2, 3, 1, w.randint(1, 4)]):
            for j in range(mult * m):
                rows.append([f"s{i:02d}", [["a", 1.0], ["b", float(1 + j % 5)]], 0.25 + 0.5 * ((i + j) % 2), "pl0", False])
        steps = [dict(op="segregate", seed=s.randrange(2**31), advance=0, params=dict(max_plate_size=m))]
        return dict(engine="prepsim", prop=prop, screen=dict(control="control", arity=2, rows=rows, layout="C"), steps=steps,
                    reuse_objects=False, mapping_extra=0)
    m = w.choice([1, 2])
    n_samples = w.choice([1005, 10050, 10050])
    rows = []
    for i in range(n_samples):
        for j in range(m):
            rows.append([f"s{i:05d}", [["a", 1.0], ["b", float(1 + j)]], 0.25 + 0.5 * ((i + j) % 2), "pl0", False])
    steps = [dict(op="segregate", seed=s.randrange(2**31), advance=0, params=dict(max_plate_size=m))]
    return dict(engine="prepsim", prop=prop, screen=dict(control="control", arity=2, rows=rows, layout="C"), steps=steps,
                reuse_objects=False, mapping_extra=0)


def gen_plan(prop, run_seed, tier):
    F = Forks(run_seed)
    w, s = F.fork("workload"), F.fork("schedule")
    if w.random() < 0.008:
        return _gen_many_plates(w, s, prop)
    spec = _gen_prep_screen(w, single_sample_plates=w.random() < 0.7, allow_arity=True)
    n = s.randint(1, 6)
    steps = []
    if s.random() < 0.25:
        # the shipped preparation order: [cover | mask] -> generator -> smoother -> split
        for r in spec["rows"]:
            r[4] = True
        steps.append(_gen_step(s, s.choice(["cover", "mask"])))
        steps.append(_gen_step(s, s.choice(GENERATORS)))
        steps.append(_gen_step(s, s.choice(SMOOTHERS)))
        steps.append(_gen_step(s, "split"))
    else:
        for _ in range(n):
            steps.append(_gen_step(s))
    reuse = s.random() < 0.4
    if reuse and steps:
        # the same operator (same parameters, hence the same object) serves a later call again, typically after other
        # operations changed the screen in between (mask / reveal / another operator)
        for _ in range(s.randint(1, 2)):
            src = s.choice(steps)
            if src["op"] in GENERATORS + SMOOTHERS:
                again = dict(src, seed=s.randrange(2**31))
                steps.insert(s.randint(steps.index(src) + 1, len(steps)), again)
                if s.random() < 0.5:
                    steps.insert(steps.index(again), _gen_step(s, s.choice(["mask", "reveal", "filter"])))
    # the input file of the preparation program is often one part of a larger screen: its stored mapping then lists
    # samples / treatments that occur in none of its rows (0-3 of them), and some treatment may occur in single-agent
    # rows only -- the alphabetically last one, which holds the highest id, included
    extra = s.choice([0, 0, 0, 1, 1, 1, 2, 3])
    if s.random() < 0.2 and spec["arity"] >= 2:
        ctl = spec["control"]
        real = sorted({(t[0], t[1]) for r in spec["rows"] for t in r[1] if t[0] != ctl and t[1] > 0})
        if real:
            last = real[-1]
            for r in spec["rows"]:
                if any((t[0], t[1]) == last for t in r[1]):
                    k = next(i for i, t in enumerate(r[1]) if (t[0], t[1]) == last)
                    r[1] = [[last[0], last[1]] if i == k else [ctl, 0.0] for i in range(len(r[1]))]
    cli = None
    if prop == "C11" and spec["arity"] == 2 and s.random() < 0.06:
        cli = dict(f1=s.choice(["0.25", "0.5", "1.0"]), f2=s.choice(["0.25", "0.5", "0.1"]), s1=s.randrange(1000), s2=s.randrange(1000),
                   died_between_writes=s.random() < 0.6)
    return dict(engine="prepsim", prop=prop, screen=spec, steps=steps, reuse_objects=reuse, mapping_extra=extra, cli_rerun=cli)


# ------------------------------------------------------------------------- execution


def _rows(screen):
    """(content, plate, mask) per row; content = (sample, treatments, observation bits)."""
    return [((r[0], r[1], r[2]), r[3], r[4]) for r in ref.content_rows(screen)]


def _plates(rows, ids=None):
    """plate name -> list of row indices"""
    d = {}
    for i, r in enumerate(rows):
        d.setdefault(r[1], []).append(i)
    return d


def _make_rng(st):
    rng = np.random.default_rng(st["seed"])
    for _ in range(st.get("advance", 0)):
        rng.random()
    return rng


def _apply(st, cur, objs=None):
    """objs: per-run cache of operator objects -- a generator / smoother object may serve several calls."""
    import batchie.retrospective as R
    from batchie.data import filter_dataset_to_treatments_that_appear_in_at_least_one_combo

    op, p = st["op"], st["params"]
    rng = _make_rng(st)
    if objs is not None and op in GENERATORS + SMOOTHERS + ["cover"]:
        key = (op, json.dumps(p, sort_keys=True))
        if key not in objs:
            objs[key] = _construct(R, op, p)
        obj = objs[key]
        if op in GENERATORS:
            return obj.generate_plates(cur, rng)
        if op in SMOOTHERS:
            return obj.smooth_plates(cur, rng)
        return obj.generate_and_unmask_initial_plate(cur, rng)
    if op == "pairwise":
        return R.PairwisePlateGenerator(subset_size=p["subset_size"], anchor_size=p["anchor_size"]).generate_plates(cur, rng)
    if op == "permute":
        return R.PlatePermutationPlateGenerator(force_include_plate_names=p["force"]).generate_plates(cur, rng)
    if op == "segregate":
        return R.SampleSegregatingPermutationPlateGenerator(max_plate_size=p["max_plate_size"]).generate_plates(cur, rng)
    if op == "merge_min":
        return R.MergeMinPlateSmoother(min_size=p["min_size"]).smooth_plates(cur, rng)
    if op == "merge_top_bottom":
        return R.MergeTopBottomPlateSmoother(n_iterations=p["n_iterations"]).smooth_plates(cur, rng)
    if op == "fixed_size":
        return R.FixedSizeSmoother(plate_size=p["plate_size"]).smooth_plates(cur, rng)
    if op == "optimal_size":
        return R.OptimalSizeSmoother().smooth_plates(cur, rng)
    if op == "n_per_sample":
        return R.NPlatePerCellLineSmoother(min_n_cell_line_plates=p["min_n"]).smooth_plates(cur, rng)
    if op == "ensemble":
        return R.BatchieEnsemblePlateSmoother(min_size=p["min_size"], n_iterations=p["n_iterations"],
                                              min_n_cell_line_plates=p["min_n"]).smooth_plates(cur, rng)
    if op == "cover":
        return R.SparseCoverPlateGenerator(reveal_single_treatment_experiments=p["reveal_single"]).generate_and_unmask_initial_plate(cur, rng)
    if op == "filter":
        return filter_dataset_to_treatments_that_appear_in_at_least_one_combo(cur)
    if op == "mask":
        return R.mask_screen(cur)
    if op == "reveal":
        unobs = [int(pl.plate_id) for pl in cur.plates if not pl.is_observed]
        if not unobs:
            raise RuntimeError("nothing to reveal")
        k = sub_rng(st["seed"], "reveal").choice(unobs)
        return R.reveal_plates(cur, [k])
    if op == "split":
        return R.create_plate_balanced_holdout_set_among_masked_plates(cur, p["fraction"], rng)
    if op == "random_holdout":
        return R.create_random_holdout(cur, p["fraction"], rng)
    raise ValueError(op)


def _construct(R, op, p):
    return {
        "pairwise": lambda: R.PairwisePlateGenerator(subset_size=p["subset_size"], anchor_size=p["anchor_size"]),
        "permute": lambda: R.PlatePermutationPlateGenerator(force_include_plate_names=p["force"]),
        "segregate": lambda: R.SampleSegregatingPermutationPlateGenerator(max_plate_size=p["max_plate_size"]),
        "merge_min": lambda: R.MergeMinPlateSmoother(min_size=p["min_size"]),
        "merge_top_bottom": lambda: R.MergeTopBottomPlateSmoother(n_iterations=p["n_iterations"]),
        "fixed_size": lambda: R.FixedSizeSmoother(plate_size=p["plate_size"]),
        "optimal_size": lambda: R.OptimalSizeSmoother(),
        "n_per_sample": lambda: R.NPlatePerCellLineSmoother(min_n_cell_line_plates=p["min_n"]),
        "ensemble": lambda: R.BatchieEnsemblePlateSmoother(min_size=p["min_size"], n_iterations=p["n_iterations"], min_n_cell_line_plates=p["min_n"]),
        "cover": lambda: R.SparseCoverPlateGenerator(reveal_single_treatment_experiments=p["reveal_single"]),
    }[op]()


class Judge:
    def __init__(self, prop, log, stats):
        self.prop, self.log, self.stats, self.viol = prop, log, stats, []

    def v(self, oid, trigger, msg):
        sig = f"{oid}/{trigger}"
        self.log.ev("violation", sig)
        if not any(x["signature"] == sig for x in self.viol):
            self.viol.append(Violation(self.prop, oid, sig, msg))


OPNAME = dict(pairwise="PairwisePlateGenerator", permute="PlatePermutationPlateGenerator",
              segregate="SampleSegregatingPermutationPlateGenerator", merge_min="MergeMinPlateSmoother",
              merge_top_bottom="MergeTopBottomPlateSmoother", fixed_size="FixedSizeSmoother",
              optimal_size="OptimalSizeSmoother", n_per_sample="NPlatePerCellLineSmoother",
              ensemble="BatchieEnsemblePlateSmoother", cover="SparseCoverPlateGenerator",
              filter="filter_dataset_to_treatments_that_appear_in_at_least_one_combo",
              split="create_plate_balanced_holdout_set_among_masked_plates", random_holdout="create_random_holdout",
              mask="mask_screen", reveal="reveal_plates")


def _cli_rerun(plan, log, stats, J):
    """The preparation PROCESS, re-run into a job directory that an earlier attempt already wrote to (fault
    leftover.earlier-attempt): attempt 1 ran with another seed / hold-out fraction and died after its first or after both
    outputs; attempt 2 is the real one.  The pair of archives it leaves must be ITS split: together exactly the experiments
    of the (combination-filtered) input, each once."""
    from batchie.data import Screen, filter_dataset_to_treatments_that_appear_in_at_least_one_combo
    from simkit.kernel import Scratch

    c = plan["cli_rerun"]
    spec = json.loads(json.dumps(plan["screen"]))
    for r in spec["rows"]:
        r[4] = True
        r[2] = max(r[2], 0.05)
    with Scratch("prep") as scratch:
        try:
            scr = gen.make_screen(spec)
            src = scratch.file("in.h5")
            scr.save_h5(src)
            want = ref.multiset([x[0] for x in _rows(filter_dataset_to_treatments_that_appear_in_at_least_one_combo(scr))])
        except Exception as e:
            log.ev("not-constructible", type(e).__name__)
            return
        tr, te = scratch.file("training.h5"), scratch.file("test.h5")
        try:
            pipe.p_prepare(src, tr, te, args=["--holdout-fraction", c["f1"]], seed=c["s1"], entropy=1)
        except pipe.HarnessError:
            raise
        except Exception as e:
            log.ev("attempt1-raised", type(e).__name__)
            return
        if c["died_between_writes"] and os.path.exists(te):
            os.remove(te)
        stats.fault("leftover.earlier-attempt")
        try:
            pipe.p_prepare(src, tr, te, args=["--holdout-fraction", c["f2"]], seed=c["s2"], entropy=2)
            a, b = Screen.load_h5(tr), Screen.load_h5(te)
        except pipe.HarnessError:
            raise
        except Exception as e:
            J.v("C11.prepare-rerun-raised", type(e).__name__, f"re-running the preparation step into a directory with leftovers raised {e!r}")
            return
        stats.oracle_evals += 1
        stats.steps += 2
        got = ref.multiset([x[0] for x in _rows(a)] + [x[0] for x in _rows(b)])
        log.ev("cli-rerun", len(want), len(got), got == want)
        if got != want:
            extra, missing = ref.multiset_sub(got, want)
            J.v("C11.prepare-rerun-not-a-partition", "prepare_retrospective_simulation",
                f"after a re-run into a directory holding an earlier attempt's output, training + hold-out archives are not the input's "
                f"experiments: {sum(extra.values())} invented/duplicated, {sum(missing.values())} lost")


def execute(prop, plan):
    launch.quiet()
    log, stats = EventLog(), RunStats()
    J = Judge(prop, log, stats)
    if prop == "C11" and plan.get("cli_rerun"):
        _cli_rerun(plan, log, stats, J)
        return dict(digest=log.digest(), violations=J.viol, stats=stats.to_dict(), log_head=log.head)
    try:
        k_extra = plan.get("mapping_extra", 0)
        if k_extra:
            spec = plan["screen"]
            uni = dict(spec, rows=list(spec["rows"]) + [
                [f"A_part_s{i}", [[f"A_part_t{i}", 1.0]] * spec["arity"], 0.5, spec["rows"][0][3], spec["rows"][0][4]] for i in range(k_extra)])
            whole = gen.make_screen(uni)
            cur = gen.make_screen(spec, treatment_mapping=whole.treatment_mapping, sample_mapping=whole.sample_mapping)
            stats.probe("mapping_larger_than_rows")
        else:
            cur = gen.make_screen(plan["screen"])
    except Exception as e:
        log.ev("not-constructible", type(e).__name__)
        return dict(digest=log.digest(), violations=[], stats=stats.to_dict(), log_head=log.head)
    chain = []
    flags = set()
    judged_after_chain = False
    objs = {} if plan.get("reuse_objects") else None
    for i, st in enumerate(plan["steps"]):
        op = st["op"]
        before = _rows(cur)
        before_ids = ref.row_ids(cur)
        stats.steps += 1
        try:
            out = _apply(st, cur, objs)
        except Exception as e:
            log.ev("step", i, op, "raised", type(e).__name__)
            stats.probe("op_raised:" + op)
            continue
        if op in ("split", "random_holdout"):
            train, hold = out
            tr, ho = _rows(train), _rows(hold)
            log.ev("step", i, op, digest(tr), digest(ho))
            if prop == "C11":
                _c11_split(J, st, before, tr, ho)
                stats.oracle_evals += 1
                if chain:
                    judged_after_chain = True
            cur = train
            chain.append(op)
            continue
        after = _rows(out)
        log.ev("step", i, op, digest(after))
        if prop == "C11":
            if _c11(J, st, before, after, flags):
                stats.oracle_evals += 1
                if chain:
                    judged_after_chain = True
        else:
            if _c13(J, st, before, before_ids, after, out, flags):
                stats.oracle_evals += 1
                if chain:
                    judged_after_chain = True
        cur = out
        chain.append(op)
    if judged_after_chain:
        stats.key(tuple(chain), tuple(sorted(flags)))
    return dict(digest=log.digest(), violations=J.viol, stats=stats.to_dict(), log_head=log.head)


# -------------------------------------------------------------------------------- C11


def _c11(J, st, before, after, flags):
    op = st["op"]
    name = OPNAME[op]
    b_obs = ref.multiset([(c, p) for c, p, m in before if m])
    a_obs = ref.multiset([(c, p) for c, p, m in after if m])
    b_all = ref.multiset([(c, m) for c, p, m in before])
    a_all = ref.multiset([(c, m) for c, p, m in after])
    if any(m for _, _, m in before):
        flags.add("observed-part")
    if op in GENERATORS:
        if a_all != b_all:
            extra, missing = ref.multiset_sub(a_all, b_all)
            J.v("C11.generator-conservation", name,
                f"{name}: output experiments != input experiments (invented/altered {list(extra.items())[:2]}, lost {list(missing.items())[:2]})")
        if a_obs != b_obs:
            J.v("C11.observed-part-changed", name, f"{name}: the observed part did not pass through unchanged (plate labels included)")
        return True
    if op in SMOOTHERS:
        extra, _ = ref.multiset_sub(a_all, b_all)
        if extra:
            J.v("C11.smoother-conservation", name,
                f"{name}: output contains experiments that are not input experiments (or more copies): {list(extra.items())[:2]}")
        if a_obs != b_obs:
            J.v("C11.observed-part-changed", name, f"{name}: the observed part did not pass through unchanged (plate labels included)")
        if len(after) < len(before):
            flags.add("dropped")
        return True
    if op == "cover":
        b_c = ref.multiset([c for c, p, m in before])
        a_c = ref.multiset([c for c, p, m in after])
        if a_c != b_c:
            J.v("C11.generator-conservation", name, f"{name}: output experiments != input experiments")
        return True
    return False


def _c11_split(J, st, before, tr, ho):
    op = st["op"]
    name = OPNAME[op]
    f = st["params"]["fraction"]
    m_in = ref.multiset([(c, p) for c, p, m in before])
    m_out = ref.multiset([(c, p) for c, p, m in tr + ho])
    if m_in != m_out:
        extra, missing = ref.multiset_sub(m_out, m_in)
        J.v("C11.split-not-partition", name, f"{name}: training + hold-out != input (extra {list(extra.items())[:2]}, missing {list(missing.items())[:2]})")
        return
    if not all(m for _, _, m in ho):
        J.v("C11.holdout-not-observed", name, f"{name}: hold-out has unobserved rows")
    extra, _ = ref.multiset_sub(ref.multiset(tr), ref.multiset(before))
    if extra:
        J.v("C11.training-mask-changed", name, f"{name}: training rows whose (experiment, plate, mask) is not in the input: {list(extra.items())[:2]}")
    if op == "split":
        size = {}
        status = {}
        for c, p, m in before:
            size[p] = size.get(p, 0) + 1
            status[p] = m
        taken = {}
        for c, p, m in ho:
            taken[p] = taken.get(p, 0) + 1
        for p, n in size.items():
            want = 0 if status[p] else math.ceil(n * f)
            if taken.get(p, 0) != want:
                J.v("C11.holdout-count", name,
                    f"{name}: plate {p!r} (size {n}, {'observed' if status[p] else 'unobserved'}, fraction {f}) gave {taken.get(p, 0)} "
                    f"rows to the hold-out, expected {want}")
                break
    else:
        want = math.ceil(len(before) * f)
        if len(ho) != want:
            J.v("C11.holdout-count", name, f"{name}: hold-out has {len(ho)} rows, expected ceil({len(before)} x {f}) = {want}")


# -------------------------------------------------------------------------------- C13


def _unobs_plates(rows):
    d = {}
    for c, p, m in rows:
        if not m:
            d.setdefault(p, []).append(c)
    return d


def _single_sample(plates):
    return all(len({c[0] for c in cs}) == 1 for cs in plates.values())


def _sizes_by_sample(plates):
    d = {}
    for p, cs in plates.items():
        d.setdefault(cs[0][0], []).append(len(cs))
    return {k: sorted(v) for k, v in d.items()}


def _ref_merge_min(sizes, min_size):
    h = list(sizes)
    heapq.heapify(h)
    while len(h) > 1:
        a = heapq.heappop(h)
        b = heapq.heappop(h)
        if a + b > min_size:
            heapq.heappush(h, a)
            heapq.heappush(h, b)
            break
        heapq.heappush(h, a + b)
    return sorted(h)


def _ref_top_bottom(sizes, n_iter):
    cur = sorted(sizes)
    counts = [len(cur)]
    for _ in range(n_iter):
        if len(cur) <= 1:
            break
        half = len(cur) // 2
        merged = [cur[i] + cur[len(cur) - 1 - i] for i in range(half)]
        rest = cur[half: len(cur) - half]
        cur = sorted(merged + rest)
        counts.append(len(cur))
    return cur, counts


def _c13(J, st, before, before_ids, after, out, flags):
    op, p = st["op"], st["params"]
    name = OPNAME[op]
    b_un, a_un = _unobs_plates(before), _unobs_plates(after)
    if op in ("segregate", "pairwise"):
        if not b_un:
            return False
        multi = {pl: sorted({c[0] for c in cs}) for pl, cs in a_un.items() if len({c[0] for c in cs}) > 1}
        n_small = 0
        if op == "segregate":
            per_sample = {}
            for cs in b_un.values():
                for c in cs:
                    per_sample[c[0]] = per_sample.get(c[0], 0) + 1
            n_small = sum(1 for v in per_sample.values() if v <= p["max_plate_size"])
            if n_small >= 2:
                flags.add("several-samples-at-or-below-limit")
            if any(v == p["max_plate_size"] for v in per_sample.values()):
                flags.add("sample-exactly-at-limit")
        if multi:
            J.v("C13.single-sample", name, f"{name}({p}): unobserved plate(s) with several samples: {dict(list(multi.items())[:2])}")
        if op == "segregate":
            big = {pl: len(cs) for pl, cs in a_un.items() if len(cs) > p["max_plate_size"]}
            if big:
                J.v("C13.plate-size-limit", name, f"{name}({p}): unobserved plates larger than the limit: {dict(list(big.items())[:2])}")
        return True
    if op == "cover":
        samples = {c[0] for c, pl, m in after}
        control = None
        seen_s = {c[0] for c, pl, m in after if m}
        # treatments via ids of the *input* (same rows, same order is not guaranteed: use content)
        ctl = _control_of(before, before_ids)
        all_t = {t for c, pl, m in after for t in c[1] if t not in ctl}
        seen_t = {t for c, pl, m in after if m for t in c[1] if t not in ctl}
        if samples - seen_s:
            J.v("C13.cover-samples", name, f"{name}: samples without an observed experiment: {sorted(samples - seen_s)[:3]}")
        if all_t - seen_t:
            J.v("C13.cover-treatments", name, f"{name}: treatments without an observed experiment: {sorted(all_t - seen_t)[:3]}")
        if len(a_un) > 1:
            J.v("C13.cover-one-unobserved-plate", name, f"{name}: {len(a_un)} unobserved plates after the cover")
        obs_plates = {pl for c, pl, m in after if m}
        if len(obs_plates) > 1:
            J.v("C13.cover-one-observed-plate", name, f"{name}: observed experiments spread over {len(obs_plates)} plates")
        return True
    if op == "filter":
        ctl = _control_of(before, before_ids)
        full = [c for c, pl, m in before if all(t not in ctl for t in c[1])]
        in_combo = {t for c in full for t in c[1]}
        want = ref.multiset([(c, pl, m) for c, pl, m in before if all(t in ctl or t in in_combo for t in c[1])])
        got = ref.multiset(after)
        if want != got:
            extra, missing = ref.multiset_sub(got, want)
            J.v("C13.combination-filter", name, f"{name}: kept-but-should-not {list(extra.items())[:2]}, dropped-but-should-not {list(missing.items())[:2]}")
        if len(after) < len(before):
            flags.add("filter-dropped")
        return True
    if op in ("fixed_size", "optimal_size"):
        if not b_un:
            return False
        sizes = sorted({len(cs) for cs in a_un.values()})
        if len(sizes) > 1:
            J.v("C13.common-size", name, f"{name}({p}): unobserved plates of sizes {sizes}")
        if op == "fixed_size" and sizes and sizes != [p["plate_size"]]:
            J.v("C13.common-size", name + ":value", f"{name}({p}): unobserved plates have size {sizes}")
        if op == "optimal_size":
            in_sizes = sorted(len(cs) for cs in b_un.values())
            best = max(k * sum(1 for s in in_sizes if s >= k) for k in range(1, max(in_sizes) + 1))
            kept = sum(len(cs) for cs in a_un.values())
            if kept != best:
                J.v("C13.optimal-size", name, f"{name}: kept {kept} experiments in plates of size {sizes}; sizes {in_sizes} allow {best}")
            if len(set(in_sizes)) > 1:
                flags.add("uneven-input")
        return True
    if op in ("n_per_sample", "ensemble"):
        if not b_un:
            return False
        if op == "n_per_sample" and not _single_sample(b_un):
            return False
        counts = {}
        for pl, cs in a_un.items():
            for s in {c[0] for c in cs}:
                counts[s] = counts.get(s, 0) + 1
        low = {s: n for s, n in counts.items() if n < p["min_n"]}
        if op == "n_per_sample":
            in_counts = {}
            for pl, cs in b_un.items():
                in_counts[cs[0][0]] = in_counts.get(cs[0][0], 0) + 1
            n_low = sum(1 for n in in_counts.values() if n < p["min_n"])
            if n_low >= 2:
                flags.add("two-samples-below-minimum")
            # samples that had enough plates must survive untouched
            for s, n in in_counts.items():
                if n >= p["min_n"] and counts.get(s, 0) != n:
                    J.v("C13.per-sample-minimum", name + ":dropped-eligible",
                        f"{name}({p}): sample {s!r} had {n} unobserved plates (>= minimum) but {counts.get(s, 0)} remain")
                    break
        if low:
            J.v("C13.per-sample-minimum", name, f"{name}({p}): samples left with fewer unobserved plates than configured: {low}")
        if op == "ensemble":
            sizes = sorted({len(cs) for cs in a_un.values()})
            if len(sizes) > 1:
                J.v("C13.common-size", name, f"{name}({p}): unobserved plates of sizes {sizes}")
        return True
    if op == "merge_min":
        if not b_un or not _single_sample(b_un):
            return False
        if not _single_sample(a_un):
            J.v("C13.merge-same-sample", name, f"{name}({p}): a merged plate holds several samples")
            return True
        want = {s: _ref_merge_min(v, p["min_size"]) for s, v in _sizes_by_sample(b_un).items()}
        got = _sizes_by_sample(a_un)
        if want != got:
            bad = {s: (got.get(s), want[s]) for s in want if got.get(s) != want[s]}
            J.v("C13.merge-min-stop", name, f"{name}({p}): per-sample plate sizes (got, expected) {dict(list(bad.items())[:2])}")
        if any(len(v) > 2 for v in _sizes_by_sample(b_un).values()):
            flags.add("three-plus-plates")
        return True
    if op == "merge_top_bottom":
        if not b_un or not _single_sample(b_un):
            return False
        if not _single_sample(a_un):
            J.v("C13.merge-same-sample", name, f"{name}({p}): a merged plate holds several samples")
            return True
        got = _sizes_by_sample(a_un)
        for s, v in _sizes_by_sample(b_un).items():
            want_sizes, counts = _ref_top_bottom(v, p["n_iterations"])
            m = len(v)
            for _ in range(p["n_iterations"]):
                if m <= 1:
                    break
                m = math.ceil(m / 2)
            if len(got.get(s, [])) != m:
                J.v("C13.top-bottom-halving", name, f"{name}({p}): sample {s!r} went from {len(v)} to {len(got.get(s, []))} plates, expected {m}")
                break
            if got.get(s) != want_sizes:
                J.v("C13.top-bottom-pairing", name, f"{name}({p}): sample {s!r} plate sizes {got.get(s)} expected {want_sizes} from {v}")
                break
        return True
    return False


def _control_of(rows, ids):
    """Set of (name, dose) keys that batchie encoded as control in this screen."""
    ctl = set()
    for (c, pl, m), (_, tids, _) in zip(rows, ids):
        for t, i in zip(c[1], tids):
            if i == -1:
                ctl.add(t)
    return ctl


def reducers(prop, plan):
    rows = plan["screen"]["rows"]
    if len(rows) > 1:
        for i in range(len(rows)):
            cand = json.loads(json.dumps(plan))
            del cand["screen"]["rows"][i]
            yield cand
    for i, st in enumerate(plan["steps"]):
        if st.get("advance"):
            cand = json.loads(json.dumps(plan))
            cand["steps"][i]["advance"] = 0
            yield cand
