"""samplesim: (a) stepper harness -- sampling.sample drives a fake MCMC / VI model that logs
reset / set_rng / step / get_model_state, under the fault 'model.dirty' (the model arrives
already stepped); (b) pipesim training phase -- real train_model processes for all chain
indices, launched in a seeded order, each under different process entropy with unrelated global
draws in between, with counters wrapped around the real sampler.  Serves C17."""
from __future__ import annotations

import copy
import json

import numpy as np

from simkit import gen, launch, pipe
from simkit.kernel import EventLog, Forks, RunStats, Scratch, Violation, digest, sub_rng

SPEC = {
    "C17": dict(engine="samplesim", level="exploration", runs=dict(quick=400, thorough=4000), chunk=4,
                rule="per run: 6 stepper-harness configurations (burn-in 0-40, thin 1-9, n 1-15, seeds, 1-6 chains, MCMC or VI, "
                     "model.dirty fault) whose event history and generator fingerprint (first 1024 raw 64-bit outputs) are judged, "
                     "plus, in a sampled share, real train_model processes for every chain index launched in a seeded order under "
                     "different entropy; non-trivial if two chain indices of one (seed, n_chains) were compared and a repeat under "
                     "different entropy/order was compared; distinct = distinct (b, t, n, n_chains, kind, dirty) tuples",
                real=["batchie.sampling.sample", "batchie.cli.train_model.main + SparseDrugCombo (process-level share)",
                      "numpy SeedSequence / Generator"],
                stub=["fake MCMCModel / VIModel implementing the real interfaces (event log only)",
                      "launch order and process entropy decided by the simulator"],
                assumptions=["a chance collision between two different 64-bit streams within 1024 outputs has probability < 2^-40 (stated, not hidden)",
                             "the order of reset vs. set_rng is not part of the statement: both must precede the first step"]),
}

FP_LEN = 1024


def preload(prop):
    launch.preload_cli()
    import batchie.cli.train_model  # noqa
    import batchie.sampling  # noqa


def gen_plan(prop, run_seed, tier):
    F = Forks(run_seed)
    w, s = F.fork("workload"), F.fork("schedule")
    base_seed = w.choice([0, 1, 12, 2**31 - 1, w.randrange(2**32), 2**32 - 1, 2**32, 2**40 + 7])
    n_chains = w.randint(1, 6) if w.random() < 0.93 else w.choice([17, 33, 129])
    cfgs = []
    for k in range(6):
        cfgs.append(dict(kind=w.choice(["mcmc"] * 4 + ["vi"]), b=w.choice([0, 0, 1, 2, 7, 40, 129, 129, w.choice([1000, 1001, 2049, 4097])]), t=w.choice([1, 1, 2, 3, 9, 33, w.choice([256, 257, 300, 1000])]),
                         # sizes beyond any plausible block or cap (32, 64, 100, 256, 1000, 1024) in one run out of seven
                         n=w.choice([1, 2, 3, 10, 15, 10, 3, w.choice([33, 65, 101, 257, 300, 1001, 1025])]), seed=base_seed if k < 4 else w.randrange(2**32), n_chains=n_chains,
                         chain_index=w.randrange(n_chains), dirty=w.random() < 0.4, entropy=s.randrange(2**31),
                         global_draws=s.choice([0, 0, 3, 100])))
        if k == 5 and s.random() < 0.5:
            c5 = cfgs[-1]
            total = c5["b"] + c5["n"] * c5["t"]
            picks = {c5["b"] + c5["t"], c5["b"], 1, total, s.randint(1, max(1, total))}  # on a recording step, at the edges, anywhere
            c5["fail_at"] = sorted(x for x in s.sample(sorted(picks), s.randint(1, min(2, len(picks)))) if x >= 1)
    # make sure two different chain indices and one exact repeat are present
    if n_chains >= 2:
        cfgs[1]["chain_index"] = (cfgs[0]["chain_index"] + 1) % n_chains
        cfgs[1]["kind"] = cfgs[0]["kind"] = "mcmc"
    cfgs[2]["chain_index"] = cfgs[0]["chain_index"]
    cfgs[2]["kind"] = cfgs[0]["kind"]
    proc = None
    if s.random() < (0.25 if tier == "quick" else 0.5):
        nc = s.randint(1, 4)
        order = list(range(nc))
        s.shuffle(order)
        proc = dict(n_chains=nc, order=order, b=s.choice([0, 1, 3]), t=s.choice([1, 2]), n=s.choice([1, 2, 3]),
                    seed=s.choice([0, 5, 1234]), screen=pipe.gen_pipeline_screen(w, n_plates=3, rows_per_plate=3),
                    repeat=s.randrange(nc))
    return dict(engine="samplesim", prop=prop, steps=cfgs, proc=proc)


def _fakes():
    from batchie.core import MCMCModel, VIModel

    class FakeMCMC(MCMCModel):
        def __init__(self, dirty, fail_at=()):
            self.events = []
            self.ordinal = 13 if dirty else 0
            self.rng_given = None
            self.fail_at = set(fail_at)  # fault transient.model.step: these calls of step() fail (a failed Cholesky)
            self.calls = 0
            self.failed = 0

        def reset_model(self):
            self.events.append(("reset",))
            self.ordinal = 0

        def set_rng(self, rng):
            self.events.append(("set_rng",))
            self.rng_given = rng
            self.fp_at_handover = fingerprint(rng)  # before the model consumes anything

        def step(self):
            self.calls += 1
            if self.calls in self.fail_at:
                self.failed += 1
                raise np.linalg.LinAlgError("Matrix is not positive definite")  # nothing advanced
            self.ordinal += 1
            self.events.append(("step", self.ordinal))
            if self.rng_given is not None:
                self.rng_given.random()  # a real model consumes its stream (a generator shared between calls would advance)

        def get_model_state(self):
            self.events.append(("record", self.ordinal))
            return ("state", self.ordinal)

    class FakeVI(VIModel):
        def __init__(self, dirty):
            self.events = []
            self.rng_given = None

        def reset_model(self):
            self.events.append(("reset",))

        def set_rng(self, rng):
            self.events.append(("set_rng",))
            self.rng_given = rng

        def sample(self, num_samples):
            self.events.append(("sample", num_samples))
            return [("vi", i) for i in range(num_samples)]

    return FakeMCMC, FakeVI


def fingerprint(rng):
    g = copy.deepcopy(rng)
    return tuple(int(x) for x in g.bit_generator.random_raw(FP_LEN))


def execute(prop, plan):
    launch.quiet()
    log, stats, viol = EventLog(), RunStats(), []

    def violation(oid, trigger, msg):
        sig = f"{oid}/{trigger}"
        log.ev("violation", sig)
        if not any(v["signature"] == sig for v in viol):
            viol.append(Violation(prop, oid, sig, msg))

    _harness(plan, log, stats, violation)
    if plan.get("proc"):
        with Scratch("sample") as scratch:
            _process_level(plan["proc"], scratch, log, stats, violation)
    return dict(digest=log.digest(), violations=viol, stats=stats.to_dict(), log_head=log.head)


def _judge_history(events, b, t, n, violation, where):
    """reset and set_rng before the first step; exactly b + n*t steps; records after steps b+t, b+2t, ..."""
    first_step = next((i for i, e in enumerate(events) if e[0] == "step"), len(events))
    pre = [e[0] for e in events[:first_step]]
    if pre.count("reset") != 1 or "set_rng" not in pre:
        violation("C17.reset-or-rng-missing", where, f"events before the first step: {pre} (b={b}, t={t}, n={n})")
        return False
    if any(e[0] in ("reset",) for e in events[first_step:]):
        violation("C17.reset-midway", where, "model reset after stepping began")
        return False
    steps = [e[1] for e in events if e[0] == "step"]
    records = [e[1] for e in events if e[0] == "record"]
    if steps != list(range(1, b + n * t + 1)):
        violation("C17.step-count", where, f"model advanced {len(steps)} steps, expected b + n*t = {b + n * t} (b={b}, t={t}, n={n})")
        return False
    want = [b + k * t for k in range(1, n + 1)]
    if records != want:
        violation("C17.record-schedule", where, f"states recorded after steps {records}, expected {want} (b={b}, t={t}, n={n})")
        return False
    # every record happens right after its step, before the next one
    for i, e in enumerate(events):
        if e[0] == "record" and (i == 0 or events[i - 1] != ("step", e[1])):
            violation("C17.record-schedule", where + ":position", f"record of ordinal {e[1]} not immediately after that step")
            return False
    return True


def _harness(plan, log, stats, violation):
    from batchie import sampling
    from batchie.core import ThetaHolder

    FakeMCMC, FakeVI = _fakes()
    fps = {}  # (seed, n_chains, chain_index) -> fingerprint
    compared_diff = compared_same = False
    for k, c in enumerate(plan["steps"]):
        launch.set_entropy(c["entropy"])
        for _ in range(c["global_draws"]):
            np.random.random()
        g0 = launch.global_state_digest()
        holder = ThetaHolder(n_thetas=c["n"])
        stats.steps += 1
        if c["kind"] == "vi":
            m = FakeVI(c["dirty"])
            try:
                sampling.sample(model=m, results=holder, seed=c["seed"], n_chains=c["n_chains"], chain_index=c["chain_index"],
                                n_burnin=c["b"], thin=c["t"])
            except Exception as e:
                violation("C17.sample-raised", f"vi:{type(e).__name__}", f"sample() on a VI model raised {e!r}")
                return
            stats.oracle_evals += 1
            calls = [e for e in m.events if e[0] == "sample"]
            log.ev("vi", k, m.events)
            if calls != [("sample", c["n"])] or len(holder.thetas) != c["n"] or not holder.is_complete:
                violation("C17.vi-schedule", "sample", f"VI model asked {calls}, holder has {len(holder.thetas)} of {c['n']}")
                return
            continue
        m = FakeMCMC(c["dirty"], c.get("fail_at") or ())
        if c["dirty"]:
            stats.fault("model.dirty")
        try:
            sampling.sample(model=m, results=holder, seed=c["seed"], n_chains=c["n_chains"], chain_index=c["chain_index"],
                            n_burnin=c["b"], thin=c["t"])
        except Exception as e:
            if m.failed:
                # the injected numerical failure reached the caller: sampling failed, nothing is claimed about it
                stats.fault("transient.model.step")
                stats.probe("sampling_failed_on_transient_fault")
                log.ev("mcmc-failed", k, type(e).__name__)
                continue
            violation("C17.sample-raised", f"mcmc:{type(e).__name__}", f"sample() raised {e!r} for {c}")
            return
        if m.failed:
            # sampling coped with the failure and reports success: the schedule below is owed in full
            stats.fault("transient.model.step")
            stats.probe("sampling_coped_with_transient_fault")
        stats.oracle_evals += 1
        log.ev("mcmc", k, c["b"], c["t"], c["n"], digest(m.events))
        if not _judge_history(m.events, c["b"], c["t"], c["n"], violation, "harness"):
            return
        if not holder.is_complete or [x[1] for x in holder.thetas] != [c["b"] + j * c["t"] for j in range(1, c["n"] + 1)]:
            violation("C17.holder-incomplete", "harness", f"collection holds {[x[1] for x in holder.thetas]} after sampling (n={c['n']})")
            return
        if launch.global_state_digest() != g0:
            violation("C17.global-state-perturbed", "sampling.sample", "sampling with a fake model changed the process-global random state")
            return
        if m.rng_given is None:
            violation("C17.no-generator", "harness", "model was never handed a generator")
            return
        fp = m.fp_at_handover
        key = (c["seed"], c["n_chains"], c["chain_index"])
        log.ev("fp", key, digest(fp))
        if key in fps:
            stats.oracle_evals += 1
            compared_same = True
            if fps[key] != fp:
                violation("C17.stream-not-reproducible", "harness",
                          f"generator for (seed, n_chains, chain_index) = {key} differs between two runs (entropy / schedule differ)")
                return
        else:
            for k2, fp2 in fps.items():
                if k2[0] == key[0] and k2[1] == key[1] and k2[2] != key[2]:
                    stats.oracle_evals += 1
                    compared_diff = True
                    if fp2 == fp:
                        violation("C17.stream-shared", "harness", f"chains {k2[2]} and {key[2]} of (seed={key[0]}, n_chains={key[1]}) get the same stream")
                        return
                    if set(fp2) & set(fp):
                        violation("C17.stream-overlap", "harness", f"streams of chains {k2[2]} and {key[2]} overlap within {FP_LEN} outputs")
                        return
            fps[key] = fp
        stats.key(c["b"], c["t"], c["n"], c["n_chains"], c["kind"], c["dirty"]) if (compared_diff or compared_same) else None


def _process_level(proc, scratch, log, stats, violation):
    """Real train_model processes; class-level recording wrappers around the real sampler."""
    from batchie.core import ThetaHolder
    from batchie.models.sparse_combo import SparseDrugCombo

    screen = gen.make_screen(proc["screen"])
    spath = scratch.file("screen.h5")
    screen.save_h5(spath)
    rec = {}
    cur = {"events": None, "fp": None, "ordinal": 0}
    orig = dict(step=SparseDrugCombo.step, get=SparseDrugCombo.get_model_state, set_rng=SparseDrugCombo.set_rng,
                reset=SparseDrugCombo.reset_model)

    def step(self):
        cur["ordinal"] += 1
        cur["events"].append(("step", cur["ordinal"]))
        return orig["step"](self)

    def get(self):
        cur["events"].append(("record", cur["ordinal"]))
        return orig["get"](self)

    def set_rng(self, rng):
        cur["events"].append(("set_rng",))
        cur["fp"] = fingerprint(rng)
        return orig["set_rng"](self, rng)

    def reset(self):
        cur["events"].append(("reset",))
        cur["ordinal"] = 0
        return orig["reset"](self)

    SparseDrugCombo.step, SparseDrugCombo.get_model_state = step, get
    SparseDrugCombo.set_rng, SparseDrugCombo.reset_model = set_rng, reset
    try:
        launches = list(proc["order"]) + [proc["repeat"]]  # one chain is launched again later (job retry)
        for li, ci in enumerate(launches):
            cur.update(events=[], fp=None, ordinal=0)
            out = scratch.file(f"thetas_{ci}.h5")
            ent = pipe.h64("proc", proc["seed"], li)
            try:
                pipe.p_train(spath, out, model="SparseDrugCombo", model_params={"n_embedding_dimensions": 2},
                             n_chains=proc["n_chains"], chain_index=ci, n_samples=proc["n"], n_burnin=proc["b"],
                             thin=proc["t"], seed=proc["seed"], entropy=ent)
            except pipe.HarnessError:
                raise
            except Exception as e:
                violation("C17.train-crashed", type(e).__name__, f"train_model chain {ci} raised {e!r}")
                return
            for _ in range(li * 3):
                np.random.random()  # unrelated global draws between launches
            stats.steps += 1
            stats.fault("entropy.reseed")
            stats.oracle_evals += 1
            log.ev("proc", li, ci, digest(cur["events"]), digest(cur["fp"]))
            if not _judge_history(cur["events"], proc["b"], proc["t"], proc["n"], violation, "train_model"):
                return
            h = ThetaHolder.load_h5(out)
            if len(h.thetas) != proc["n"] or not h.is_complete:
                violation("C17.holder-incomplete", "train_model", f"chain file holds {len(h.thetas)} of {proc['n']} samples")
                return
            if cur["fp"] is None:
                violation("C17.no-generator", "train_model", "model was never handed a generator")
                return
            if ci in rec:
                if rec[ci] != cur["fp"]:
                    violation("C17.stream-not-reproducible", "train_model", f"chain {ci} relaunched later got another generator")
                    return
                stats.probe("relaunch_same_stream")
            else:
                for c2, fp2 in rec.items():
                    if fp2 == cur["fp"] or set(fp2) & set(cur["fp"]):
                        violation("C17.stream-shared", "train_model", f"chains {c2} and {ci} share or overlap their stream")
                        return
                rec[ci] = cur["fp"]
        stats.probe("process_level_chains", len(rec))
    finally:
        SparseDrugCombo.step, SparseDrugCombo.get_model_state = orig["step"], orig["get"]
        SparseDrugCombo.set_rng, SparseDrugCombo.reset_model = orig["set_rng"], orig["reset"]


def reducers(prop, plan):
    if plan.get("proc"):
        cand = json.loads(json.dumps(plan))
        cand["proc"] = None
        yield cand
