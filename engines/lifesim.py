"""lifesim: operation histories over Screen objects *and their files*.

Nodes: the object graph of one "process" at a time; storage: HDF5 files in scratch; every
load happens across a simulated process boundary (fresh objects, only the file survives).
Serves C01 (monitor + corrupt-mapping faults), C02, C03, C12.
"""
from __future__ import annotations

import json
import math
import os

import numpy as np

from simkit import gen, launch, ref
from simkit.kernel import EventLog, Forks, RunStats, Scratch, Violation, digest, f64_bits, sub_rng

REAL = ["batchie.data.Screen / ScreenSubset / Plate / ExperimentSpace (constructor, encoders, save_h5, load_h5)",
        "batchie.retrospective.reveal_plates / mask_screen / unmask_screen / create_plate_balanced_holdout_set_among_masked_plates",
        "batchie.cli.reveal_plate.main, batchie.cli.extract_screen_metadata.main (in-process launches)",
        "batchie.models.sparse_combo.SparseDrugComboMCMCSample.predict_* (C03)",
        "h5py / HDF5 on a scratch tmpfs tree"]
STUB = ["process boundary: modelled as 'drop every object, keep only the file' inside one interpreter"]

_COMMON_ASSUME = [
    "a CLI process is atomic apart from its output file; HDF5 files are published whole",
    "screens have <= 64 rows, names come from a fixed tricky alphabet (no trailing NUL: numpy U dtype cannot hold it)",
]

SPEC = {
    "C01": dict(engine="lifesim", level="exploration", runs=dict(quick=1500, thorough=15000), chunk=10,
                rule="lifesim histories (seeded op sequences over screens and their files); a run is non-trivial "
                     "if at least one Screen construction with a batchie-produced superset mapping was monitored; "
                     "distinct = distinct (arity, control style, #mapping entries beyond the rows, op multiset, "
                     "fault kinds fired) tuples",
                real=REAL, stub=STUB,
                assumptions=_COMMON_ASSUME + ["C01 is a statement about a pure encoder; simulation only reaches it through "
                                              "histories (supplied superset mappings, reload, reveal) and the stored-mapping faults"]),
    "C02": dict(engine="lifesim", level="exploration", runs=dict(quick=1500, thorough=12000), chunk=10,
                rule="lifesim histories with save/load at arbitrary points; non-trivial if at least one reload of a "
                     "screen whose mapping lists conditions absent from its rows, or with non-ASCII/empty names, was "
                     "compared; distinct = distinct (arity, alphabet, mapping-excess, mask pattern class, cycles) tuples",
                real=REAL, stub=STUB,
                assumptions=_COMMON_ASSUME + ["no torn files: the property promises nothing about them"]),
    "C03": dict(engine="lifesim", level="exploration", runs=dict(quick=1500, thorough=12000), chunk=10,
                rule="prepared simulations (hold-out split with a condition forced into hold-out-only rows in >= half "
                     "of the runs) followed by seeded reveal/mask/unmask/save/load histories on both halves; non-trivial "
                     "if some sample or (treatment,dose) is absent from a live screen's rows but present in the frozen "
                     "mapping; distinct = distinct (which side lacks it, op sequence shape) tuples",
                real=REAL, stub=STUB, assumptions=_COMMON_ASSUME),
    "C12": dict(engine="lifesim", level="exploration", runs=dict(quick=1500, thorough=12000), chunk=10,
                rule="seeded mask/unmask/reveal/save/load/set_observed histories with reveal id sets that include "
                     "already observed, repeated and unknown ids and with poisoned plates (all-zero / NaN); non-trivial "
                     "if at least one reveal changed the mask; distinct = distinct (op sequence shape, reveal modes, "
                     "fault kinds) tuples",
                real=REAL, stub=STUB, assumptions=_COMMON_ASSUME),
}


def preload(prop):
    launch.quiet()
    if prop == "C03":
        launch.preload_cli()  # the pipeline rounds launch prepare_retrospective_simulation / train_model
        import batchie.cli.prepare_retrospective_simulation  # noqa
        import batchie.cli.train_model  # noqa
    import batchie.retrospective  # noqa
    import batchie.cli.reveal_plate  # noqa
    import batchie.cli.extract_screen_metadata  # noqa
    import batchie.models.sparse_combo  # noqa


# ======================================================================== plan generation


def gen_plan(prop, run_seed, tier):
    F = Forks(run_seed)
    w, s, f = F.fork("workload"), F.fork("schedule"), F.fork("faults")
    plan = dict(engine="lifesim", prop=prop)
    if prop == "C03":
        arity = w.choice([2, 2, 2, 2, 1])
        spec = gen.gen_screen(w, arity=arity, nonzero_obs=True, observed_rate=w.choice([0.0, 0.2, 0.4]),
                              n_rows=w.randint(4, 36))
        force = w.random() < 0.6
        if force:
            _force_holdout_only(w, spec)
        plan["screen"] = spec
        plan["prepare"] = dict(fraction=w.choice([0.1, 0.25, 0.5, 0.5, 1.0, 0.0]), seed=w.randrange(2**31))
        plan["theta_seed"] = w.randrange(2**31)
        plan["hand_built_base"] = w.randrange(2**31) if w.random() < 0.3 else None
        n_steps = s.randint(2, 14 if tier == "quick" else 40)
        ops = ["reveal"] * 5 + ["mask", "unmask"] + ["save_load"] * 3 + ["reveal_cli"] * 2
        if s.random() < (0.06 if tier == "quick" else 0.12):
            # whole retrospective rounds through the real CLI processes
            plan["pipeline"] = dict(rounds=s.randint(2, 4), seed=s.randrange(100000), fraction=s.choice(["0.2", "0.5", "0.34"]),
                                    wseed=w.randrange(2**31), generator=s.choice([None, "PlatePermutationPlateGenerator"]))
    elif prop == "C12":
        spec = gen.gen_screen(w, observed_rate=w.choice([0.0, 0.3, 0.6]))
        if w.random() < 0.3:
            # stored values of either sign that cancel exactly over a plate (or overflow to +-inf): neither all zero nor NaN
            by_plate = {}
            for r in spec["rows"]:
                by_plate.setdefault(r[3], []).append(r)
            for p in w.sample(sorted(by_plate), w.randint(1, len(by_plate))):
                rs = by_plate[p]
                pat = w.choice([[0.5, -0.5], [0.25, -0.125, -0.125], [1e16, 1.0, -1e16], [float("inf"), float("-inf")], [2.0, -2.0, 0.0]])
                for i, r in enumerate(rs):
                    r[2] = pat[i % len(pat)] if len(rs) >= 2 else r[2]
        plan["screen"] = spec
        plan["prepare"] = dict(fraction=w.choice([0.0, 0.3]), seed=w.randrange(2**31)) if w.random() < 0.3 else None
        n_steps = s.randint(2, 16 if tier == "quick" else 40)
        ops = ["reveal"] * 6 + ["reveal_cli"] * 2 + ["mask", "mask", "unmask", "save_load", "save_load",
                                                      "set_observed", "set_observed", "set_observed", "construct", "construct", "perm_ctor"]
    elif prop == "C02":
        spec = gen.gen_screen(w, alphabet=w.choice(["tricky", "tricky", "ascii", "prefixy"]), observed_rate=w.choice([0.3, 0.5, 0.5, 0.7, 0.0, 1.0]))
        _sprinkle_special_obs(w, spec)
        plan["screen"] = spec
        plan["prepare"] = dict(fraction=w.choice([0.2, 0.5, 0.5, 0.8, 1.0]), seed=w.randrange(2**31)) if w.random() < 0.6 else None
        n_steps = s.randint(2, 10 if tier == "quick" else 30)
        ops = ["save_load"] * 6 + ["space_save_load"] * 2 + ["reveal", "mask", "unmask", "split", "set_observed", "merge_plates", "merge_plates", "perm_ctor", "perm_ctor"]
    else:  # C01
        spec = gen.gen_screen(w, alphabet=w.choice(["tricky", "tricky", "ascii", "prefixy"]))
        plan["screen"] = spec
        plan["prepare"] = dict(fraction=w.choice([0.2, 0.5, 1.0]), seed=w.randrange(2**31)) if w.random() < 0.7 else None
        n_steps = s.randint(2, 10 if tier == "quick" else 30)
        ops = ["save_load"] * 2 + ["reveal", "mask", "unmask", "split", "split", "merge_plates", "merge_plates",
                                    "corrupt_mapping", "corrupt_mapping", "corrupt_mapping", "resplit_ctor", "perm_ctor", "perm_ctor"]
    steps = []
    for _ in range(n_steps):
        op = s.choice(ops)
        # half of the operations continue on the most recently created screen (t = -1): real histories are chains
        st = dict(op=op, t=(-1 if s.random() < 0.5 else s.randrange(64)), sub=s.randrange(2**31), rep=s.random() < 0.5)
        if op in ("reveal", "reveal_cli"):
            st["mode"] = s.choice(["one", "one", "some", "all", "unknown", "observed", "repeat", "mixed"])
            if prop == "C12" and f.random() < 0.25:
                st["poison"] = f.choice(["zero", "nan", "nan_one"])
        if op == "save_load":
            st["cycles"] = s.choice([1, 1, 2, 3])
            st["torn"] = f.random() if f.random() < 0.3 else None
            st["stale"] = f.random() if f.random() < 0.25 else None
            if prop == "C02":
                st["rep"] = s.random() < 0.25  # mostly keep the saved object alive: it may be edited and saved again
                st["keep_original_last"] = True
        if op == "split":
            st["fraction"] = s.choice([0.0, 0.3, 0.5, 1.0])
        if op == "corrupt_mapping":
            st["kind"] = f.choice(["gap", "uncover_treatment", "uncover_sample", "sample_gap", "dup_id"])
        if op == "set_observed":
            st["whole"] = s.random() < 0.6
            st["inplace"] = s.random() < 0.7
        if op == "construct":
            st["kind"] = s.choice(["mixed", "obs_no_mask", "no_obs", "mask_no_obs"])
        if op == "perm_ctor":
            u = s.random()
            st["extra"] = "huge" if u < 0.05 else (u < 0.4)
        steps.append(st)
    plan["steps"] = steps
    return plan


def _force_holdout_only(w, spec):
    """Add a singleton unobserved plate whose row carries a sample and/or (treatment, dose)
    that occurs nowhere else: any fraction > 0 sends it to the hold-out (ceil(f*1) = 1)."""
    control = spec["control"]
    arity = spec["arity"]
    used_plates = {r[3] for r in spec["rows"]}
    k = 0
    for _ in range(w.choice([1, 1, 2])):
        kind = w.choice(["sample", "treatment", "both"])
        # names chosen to sort first / in the middle / last
        new_sample = w.choice(["!first", "m_mid", "~last", "0", "s1a"])
        new_treat = w.choice(["!first", "c_mid", "~last", "0", "aa"])
        base = w.choice(spec["rows"])
        sample = new_sample if kind in ("sample", "both") else base[0]
        tr = [list(t) for t in base[1]]
        if kind in ("treatment", "both"):
            tr[w.randrange(arity)] = [new_treat, w.choice([1.0, 0.25, 7.0])]
            if new_treat == control:
                tr[0][0] = new_treat + "x"
        if arity == 2 and tr[0] == tr[1]:
            tr[1] = [control, 0.0]
        plate = f"zz_single_{k}"
        while plate in used_plates:
            k += 1
            plate = f"zz_single_{k}"
        used_plates.add(plate)
        spec["rows"].append([sample, tr, w.uniform(0.05, 0.95), plate, False])
    w.shuffle(spec["rows"])


def _sprinkle_special_obs(w, spec):
    specials = [float("nan"), -0.0, 5e-324, 1.0000000000000002, 16777217.0, 0.1 + 0.2, -1.5, 1e308]
    for r in spec["rows"]:
        if w.random() < 0.2:
            r[2] = w.choice(specials)


# =============================================================================== execution


class Live:
    __slots__ = ("screen", "rows", "lineage_sizes", "supplied", "tag", "tainted", "group")
    _next_group = [0]

    def __init__(self, screen, rows, lineage_sizes=None, supplied=None, tag="", group=None):
        # storage group: screens derived by reveal / mask / unmask share their observation array with the
        # screen they came from (no property speaks about that aliasing; the reference only tracks it)
        if group is None:
            Live._next_group[0] += 1
            group = Live._next_group[0]
        self.group = group
        self.tainted = False  # an id violation was already reported for this screen or an ancestor
        self.screen = screen
        self.rows = rows  # reference content rows (expected)
        self.lineage_sizes = lineage_sizes
        self.supplied = supplied  # (sample dict, treatment dict) the constructor was handed, or None
        self.tag = tag


class Ctx:
    def __init__(self, prop, plan, scratch):
        self.prop = prop
        self.plan = plan
        self.scratch = scratch
        self.log = EventLog()
        self.stats = RunStats()
        self.viol = []
        self.pool = []
        self.frozen = None  # (sample dict, treatment dict) of the prepared simulation
        self.theta = None
        self.control = plan["screen"]["control"]
        self.arity = plan["screen"]["arity"]
        self.ops_done = []
        self.fault_kinds = set()

    def violation(self, oracle_id, trigger, message, detail=None):
        sig = f"{oracle_id}/{trigger}" if trigger else oracle_id
        self.log.ev("violation", oracle_id, sig)
        if not any(v["signature"] == sig for v in self.viol):
            self.viol.append(Violation(self.prop, oracle_id, sig, message, detail))


def execute(prop, plan):
    launch.quiet()
    with Scratch("life") as scratch:
        ctx = Ctx(prop, plan, scratch)
        _run(ctx)
        st = ctx.stats
        return dict(digest=ctx.log.digest(), violations=ctx.viol, stats=st.to_dict(), log_head=ctx.log.head)


def _expect_sizes(screen):
    from batchie.data import ExperimentSpace

    es = ExperimentSpace.from_screen(screen)
    return int(es.n_unique_treatments), int(es.n_unique_samples)


def _run(ctx):
    from batchie.retrospective import create_plate_balanced_holdout_set_among_masked_plates

    plan, prop = ctx.plan, ctx.prop
    try:
        base = gen.make_screen(plan["screen"])
        hb = plan.get("hand_built_base")
        if hb is not None and base.size:
            # the whole simulation starts from a screen whose id mappings were specified by hand (ids from an external
            # registry): dense, but a permutation of the sorted-unique numbering; entries listed alphabetically or not
            from batchie.data import Screen

            hrnd = sub_rng(hb, "hand-built-base")
            tm, sm, _, _ = _hand_built_mappings(ctx, hrnd, base, hrnd.random() < 0.3, shuffle_entries=hrnd.random() < 0.5)
            base = Screen(treatment_names=base.treatment_names, treatment_doses=base.treatment_doses, sample_names=base.sample_names,
                          plate_names=base.plate_names, observations=base.observations, observation_mask=base.observation_mask,
                          control_treatment_name=base.control_treatment_name, treatment_mapping=tm, sample_mapping=sm)
            ctx.stats.probe("hand_built_base_mapping")
    except Exception as e:  # not constructible: outside every quantifier
        ctx.log.ev("base-not-constructible", type(e).__name__)
        return
    base_rows = ref.content_rows(base)
    # the reference rows of the base come from the *plan*, not from the object
    want = _spec_rows(plan["screen"])
    if base_rows != want:
        ctx.violation(f"{prop}.construct-content", "Screen.__init__",
                      "constructed screen does not report the rows it was given", dict(got=base_rows[:3], want=want[:3]))
    ctx.stats.steps += 1
    sd, td, _, _ = ref.mapping_dicts(base)
    prep = plan.get("prepare")
    if prep:
        rng = np.random.default_rng(prep["seed"])
        try:
            train, test = create_plate_balanced_holdout_set_among_masked_plates(base, prep["fraction"], rng)
        except Exception as e:
            ctx.log.ev("prepare-raised", type(e).__name__)
            return
        ctx.stats.steps += 1
        ctx.frozen = (sd, td)
        sizes = _expect_sizes(base)
        tr_rows, te_rows = ref.content_rows(train), ref.content_rows(test)
        # the two halves must partition the base rows (hold-out marked observed)
        m_in = ref.multiset([(r[0], r[1], r[2], r[3]) for r in base_rows])
        m_out = ref.multiset([(r[0], r[1], r[2], r[3]) for r in tr_rows + te_rows])
        if m_in != m_out:
            ctx.log.ev("split-not-partition")  # C11's business; lineage reference would be unsound
            return
        ctx.pool.append(Live(train, tr_rows, sizes, (sd, td), "train"))
        ctx.pool.append(Live(test, te_rows, sizes, (sd, td), "test"))
        ctx.log.ev("prepared", len(tr_rows), len(te_rows), digest(tr_rows), digest(te_rows))
        if prop == "C03":
            _c03_nontrivial(ctx)
    else:
        ctx.frozen = (sd, td)
        ctx.pool.append(Live(base, base_rows, _expect_sizes(base), None, "base"))
        ctx.log.ev("base", len(base_rows), digest(base_rows))
    if prop == "C03" and ctx.arity <= 2:
        ctx.theta = _make_theta(plan["theta_seed"], *ctx.pool[0].lineage_sizes)
    _check_all(ctx, "init")
    for i, st in enumerate(plan["steps"]):
        if not ctx.pool:
            break
        fn = OPS[st["op"]]
        t = (len(ctx.pool) - 1) if st["t"] < 0 else st["t"] % len(ctx.pool)
        ctx.log.ev("step", i, st["op"], t)
        fn(ctx, st, t)
        ctx.stats.steps += 1
        ctx.ops_done.append(st["op"])
        _check_all(ctx, f"after:{st['op']}")
    if plan.get("pipeline") and prop == "C03":
        _c03_pipeline(ctx)
    _final_keys(ctx)


def _c03_pipeline(ctx):
    """pipesim rounds for C03: prepare -> (train -> reveal) x rounds through the real CLI processes;
    the thetas trained at round 1 are applied to the screens of every later round and to the test
    screen; every stage's ids must agree with the ids of the first stage."""
    import random as _random

    from batchie.core import ThetaHolder
    from batchie.data import Screen
    from simkit import pipe

    pl = ctx.plan["pipeline"]
    w = _random.Random(pl["wseed"])
    spec = pipe.gen_pipeline_screen(w, n_plates=w.randint(4, 7), rows_per_plate=w.randint(2, 4), n_samples=w.randint(2, 3),
                                    n_names=w.randint(3, 4), allow_controls=False)
    for r in spec["rows"]:
        r[4] = True
    # conditions that occur in a single row only: likely to end up in the hold-out alone
    for k, (smp, name) in enumerate([("!s_first", "d0"), ("s0", "!d_first"), ("m_mid", "c_mid")][: w.randint(1, 3)]):
        spec["rows"].append([smp, [[name, 1.0], ["d1", 2.0]], w.uniform(0.2, 0.8), w.choice([r[3] for r in spec["rows"]]), True])
    src = ctx.scratch.file("input.h5")
    gen.make_screen(spec).save_h5(src)
    train_p, test_p = ctx.scratch.file("training.screen.h5"), ctx.scratch.file("test.screen.h5")
    args = ["--holdout-fraction", pl["fraction"]]
    if pl["generator"]:
        args += ["--plate-generator", pl["generator"]]
    try:
        pipe.p_prepare(src, train_p, test_p, args=args, seed=pl["seed"], entropy=pipe.h64("c03", pl["seed"]))
        cur = Screen.load_h5(train_p)
        test = Screen.load_h5(test_p)
    except pipe.HarnessError:
        raise
    except Exception as e:
        ctx.log.ev("pipeline-prepare-raised", type(e).__name__)
        return
    ctx.stats.steps += 1
    sd0, td0, _, _ = ref.mapping_dicts(cur)
    sizes0 = _expect_sizes(cur)
    theta = None
    stages = [("training", cur), ("test", test)]
    cur_p = train_p
    for rnd_i in range(pl["rounds"]):
        if theta is None:
            out = ctx.scratch.file("thetas_0.h5")
            try:
                pipe.p_train(cur_p, out, model="SparseDrugCombo", model_params={"n_embedding_dimensions": 2}, n_chains=1,
                             chain_index=0, n_samples=1, n_burnin=1, thin=1, seed=pl["seed"], entropy=pipe.h64("c03t", pl["seed"]))
                theta = ThetaHolder.load_h5(out).thetas[0]
            except pipe.HarnessError:
                raise
            except Exception as e:
                ctx.log.ev("pipeline-train-raised", type(e).__name__)
                return
            ctx.stats.steps += 1
        unobs = [int(p.plate_id) for p in cur.plates if not p.is_observed]
        if not unobs:
            break
        pick = unobs[(pl["seed"] + rnd_i) % len(unobs)]
        nxt = ctx.scratch.file("advanced_screen.h5")
        try:
            pipe.p_reveal(cur_p, nxt, [pick], entropy=pipe.h64("c03r", rnd_i))
            cur = Screen.load_h5(nxt)
        except pipe.HarnessError:
            raise
        except Exception as e:
            ctx.log.ev("pipeline-reveal-raised", type(e).__name__)
            return
        cur_p = nxt
        ctx.stats.steps += 1
        stages.append((f"round{rnd_i + 1}", cur))
    ctx.stats.probe("pipeline_rounds", len(stages) - 2)
    for name, scr in stages:
        ctx.stats.oracle_evals += 1
        sd, td, _, _ = ref.mapping_dicts(scr)
        bad_s = {k: (v, sd0[k]) for k, v in sd.items() if k in sd0 and sd0[k] != v}
        bad_t = {k: (v, td0[k]) for k, v in td.items() if k in td0 and td0[k] != v}
        ctx.log.ev("pipeline-stage", name, digest(ref.row_ids(scr)))
        if bad_s or bad_t:
            ctx.violation("C03.mapping-renumbered", f"pipeline:{name.rstrip('0123456789')}",
                          f"stage {name} of a retrospective run assigns other ids than the training screen of round 0: "
                          f"samples {dict(list(bad_s.items())[:2])} treatments {dict(list(bad_t.items())[:2])}")
            return
        nt, ns = _expect_sizes(scr)
        if nt < sizes0[0] or ns < sizes0[1]:
            ctx.violation("C03.embedding-size-shrank", f"pipeline:{name.rstrip('0123456789')}",
                          f"stage {name}: sizes ({nt},{ns}) below the first stage's {sizes0}")
            return
        if theta is not None and scr.size:
            rows = ref.content_rows(scr)
            try:
                want = theta.predict_conditional_mean(ref.IdView([sd0[r[0]] for r in rows], [[td0[t] for t in r[1]] for r in rows]))
                got = theta.predict_conditional_mean(scr)
            except Exception as e:
                ctx.violation("C03.prediction-changed", f"pipeline:{name.rstrip('0123456789')}",
                              f"stage {name}: thetas trained at round 1 cannot be applied: {e!r}")
                return
            if f64_bits(got).tolist() != f64_bits(want).tolist():
                ctx.violation("C03.prediction-changed", f"pipeline:{name.rstrip('0123456789')}",
                              f"stage {name}: thetas trained at round 1 predict differently than on the first stage's ids")
                return
    miss = [k for k in sd0 if k not in {r[0] for r in ref.content_rows(stages[0][1])}]
    if miss:
        ctx.stats.probe("pipeline_holdout_only_sample")


def _spec_rows(spec):
    out = []
    for r in spec["rows"]:
        out.append((str(r[0]), tuple(ref.tkey(t[0], t[1]) for t in r[1]),
                    int(f64_bits(np.array([float(r[2])]))[0]), str(r[3]), bool(r[4])))
    return out


def _c03_nontrivial(ctx):
    sd, td = ctx.frozen
    for live in ctx.pool[:2]:
        present_s = {r[0] for r in live.rows}
        present_t = {t for r in live.rows for t in r[1]}
        miss_s = [k for k in sd if k not in present_s]
        miss_t = [k for k, v in td.items() if v != ref.CONTROL and k not in present_t]
        if miss_s or miss_t:
            ctx.stats.probe(f"holdout_only_condition_missing_from_{live.tag}")
            # does the missing key sort before some present key (so a re-encode would shift ids)?
            shifted = any(any(k < p for p in present_s) for k in miss_s) or \
                any(any(k < p for p in present_t if td.get(p, -1) != ref.CONTROL) for k in miss_t)
            if shifted:
                ctx.stats.probe("missing_condition_not_sorted_last")
            ctx.stats.key("c03", live.tag, bool(miss_s), bool(miss_t), shifted)


def _final_keys(ctx):
    prop = ctx.prop
    shape = tuple(sorted(set(ctx.ops_done)))
    if prop == "C03":
        if ctx.stats.nontrivial:
            ctx.stats.key("c03-ops", shape, len(ctx.ops_done))
    elif prop == "C12":
        if ctx.stats.probes.get("reveal_changed_mask"):
            ctx.stats.key("c12", shape, tuple(sorted(ctx.fault_kinds)), ctx.stats.probes.get("reveal_changed_mask"))
    elif prop == "C02":
        if ctx.stats.probes.get("reload_compared_nontrivial"):
            ctx.stats.key("c02", ctx.arity, shape, ctx.stats.probes.get("reload_mapping_excess", 0) > 0,
                          ctx.stats.probes.get("reload_compared_nontrivial"))
    elif prop == "C01":
        if ctx.stats.probes.get("monitored_supplied_superset_mapping"):
            ctx.stats.key("c01", ctx.arity, shape, tuple(sorted(ctx.fault_kinds)),
                          ctx.stats.probes.get("monitored_supplied_superset_mapping"))


def _make_theta(seed, n_treat, n_samp):
    from batchie.models.sparse_combo import SparseDrugComboMCMCSample

    rng = np.random.default_rng(seed)
    D = 2
    # all-distinct parameter values: any renumbering changes a prediction
    vals = rng.permutation(np.arange(1, 1 + (n_samp + 3 * n_treat) * D + n_samp + n_treat, dtype=float)) / 7.0

    def take(shape):
        nonlocal vals
        n = int(np.prod(shape))
        out, vals = vals[:n].reshape(shape), vals[n:]
        return out.copy()

    return SparseDrugComboMCMCSample(W=take((n_samp, D)), W0=take((n_samp,)), V2=take((n_treat, D)),
                                     V1=take((n_treat, D)), V0=take((n_treat,)), alpha=0.125, precision=2.0)


def _put(ctx, st, t, live):
    if st.get("rep") and t >= 0:
        ctx.pool[t] = live
    else:
        ctx.pool.append(live)
        if len(ctx.pool) > 8:
            del ctx.pool[2 if len(ctx.pool) > 3 else 0]


# ------------------------------------------------------------------------- operations


def _ref_plate_ids(rows):
    return ref.plate_id_of(rows)


def _choose_reveal_ids(rnd, rows, mode):
    pid = _ref_plate_ids(rows)
    all_ids = sorted(pid.values())
    observed_ids = sorted({pid[r[3]] for r in rows if r[4]})
    unobserved_ids = sorted(set(all_ids) - set(observed_ids))
    unknown = [max(all_ids) + 1 + rnd.randrange(3), -1 - rnd.randrange(2) * 5, 10**6]
    if mode == "one":
        ids = [rnd.choice(unobserved_ids or all_ids)]
    elif mode == "some":
        ids = rnd.sample(all_ids, rnd.randint(1, len(all_ids)))
    elif mode == "all":
        ids = list(all_ids)
    elif mode == "unknown":
        ids = [rnd.choice(unknown)]
    elif mode == "observed":
        ids = [rnd.choice(observed_ids or all_ids)]
    elif mode == "repeat":
        x = rnd.choice(unobserved_ids or all_ids)
        ids = [x, x, x]
    else:  # mixed
        ids = [rnd.choice(all_ids), rnd.choice(unknown)] + ([rnd.choice(observed_ids)] if observed_ids else [])
        rnd.shuffle(ids)
    return [int(i) for i in ids]


def _expected_reveal(rows, ids):
    pid = _ref_plate_ids(rows)
    idset = set(ids)
    sel = [pid[r[3]] in idset for r in rows]
    out = [(r[0], r[1], r[2], r[3], bool(r[4] or s)) for r, s in zip(rows, sel)]
    return out, sel


def _save(ctx, screen, name="screen.h5"):
    p = ctx.scratch.file(name)
    screen.save_h5(p)
    return p


def _meta_counts(ctx, screen_path):
    out = ctx.scratch.file("meta.json")
    launch.run_cli("extract_screen_metadata", ["--screen", screen_path, "--output", out])
    with open(out) as f:
        return json.load(f)


def op_reveal(ctx, st, t, cli=False):
    from batchie.data import Screen
    from batchie.retrospective import reveal_plates

    live = ctx.pool[t]
    if not live.rows:
        ctx.log.ev("reveal-skipped-empty")
        return
    rnd = sub_rng(st["sub"], "reveal")
    ids = _choose_reveal_ids(rnd, live.rows, st.get("mode", "one"))
    expected, sel = _expected_reveal(live.rows, ids)
    sel_vals = [r[2] for r, s in zip(live.rows, sel) if s]
    sel_f = np.array(sel_vals, dtype=np.uint64).view(np.float64) if sel_vals else np.array([])
    must_refuse = bool(len(sel_f)) and (bool(np.all(sel_f == 0)) or bool(np.isnan(sel_f).any()))
    nothing_selected = len(sel_f) == 0
    ctx.log.ev("reveal", ids, cli, must_refuse, nothing_selected)

    poison = st.get("poison")
    if poison and ctx.prop == "C12" and not nothing_selected:
        _poisoned_reveal(ctx, live, ids, sel, poison, cli, rnd)

    before_counts = None
    try:
        if cli:
            src = _save(ctx, live.screen)
            if ctx.prop == "C12":
                before_counts = _meta_counts(ctx, src)
            dst = ctx.scratch.file("advanced_screen.h5")
            in_place = ctx.prop == "C12" and rnd.random() < 0.3
            if in_place:
                # the screen is advanced IN PLACE (--output equal to --screen), on a file system with coarse time stamps: the
                # rewritten file carries the same modification time as before (any side file keyed on path + mtime is stale)
                dst = src
                mtime = os.stat(src).st_mtime
                ctx.stats.fault("clock.coarse-mtime")
            if not in_place and rnd.random() < 0.35:
                # fault leftover.earlier-attempt: the step already ran once into this job directory with OTHER arguments
                # (more plates, or other plates) before the command line was corrected; its output is still there
                all_ids = sorted(set(_ref_plate_ids(live.rows).values()))
                other = sorted(set(ids) | set(rnd.sample(all_ids, rnd.randint(1, len(all_ids))))) if rnd.random() < 0.7 else \
                    rnd.sample(all_ids, rnd.randint(1, len(all_ids)))
                try:
                    launch.run_cli("reveal_plate", ["--screen", src, "--output", dst, "--plate-id"] + [int(x) for x in other])
                    ctx.stats.fault("leftover.earlier-attempt")
                except Exception:
                    pass
            launch.run_cli("reveal_plate", ["--screen", src, "--output", dst, "--plate-id"] + ids)
            if in_place:
                os.utime(dst, (mtime, mtime))
            new = Screen.load_h5(dst)
        else:
            # the id collection comes as a list, a tuple, an integer array of either width, or a list of numpy
            # integers (what np.unique / a policy returns): same plates either way
            form = h_ids = sum(ids) % 5 if ids else 0
            ids_arg = [list(ids), tuple(ids), np.array(ids, dtype=np.int64), np.array(ids, dtype=np.int32),
                       [np.int64(i) for i in ids]][form]
            new = reveal_plates(live.screen, ids_arg)
            dst = None
    except ValueError as e:
        ctx.log.ev("reveal-raised", "ValueError")
        if ctx.prop == "C12" and not must_refuse and not nothing_selected:
            ctx.violation("C12.reveal-refused", "reveal_plates",
                          f"reveal of plates {ids} raised {e!r} although the selected stored values are neither all zero nor NaN")
        return
    except Exception as e:
        ctx.log.ev("reveal-raised", type(e).__name__)
        if ctx.prop in ("C12", "C03") and not nothing_selected:
            ctx.violation(f"{ctx.prop}.reveal-crashed", f"reveal_plates:{type(e).__name__}", f"reveal raised {e!r}")
        return
    if ctx.prop == "C12" and must_refuse:
        ctx.violation("C12.reveal-accepted-poison", "reveal_plates",
                      f"reveal of plates {ids} returned although the selected stored values are all zero or contain NaN")
    if ctx.prop == "C12":
        ctx.stats.oracle_evals += 1
        n_new = len({r[3] for r, e in zip(live.rows, expected) if e[4] and not r[4]})
        if n_new:
            ctx.stats.probe("reveal_changed_mask")
        if cli and before_counts is not None:
            after_counts = _meta_counts(ctx, dst)
            drop = before_counts["n_unobserved_plates"] - after_counts["n_unobserved_plates"]
            ctx.log.ev("meta", before_counts["n_unobserved_plates"], after_counts["n_unobserved_plates"])
            ref_unobs_before = len({r[3] for r in live.rows if not r[4]})
            if drop != n_new or before_counts["n_unobserved_plates"] != ref_unobs_before:
                ctx.violation("C12.metadata-counter", "extract_screen_metadata",
                              f"n_unobserved_plates went {before_counts['n_unobserved_plates']} -> "
                              f"{after_counts['n_unobserved_plates']} but {n_new} plates were newly revealed "
                              f"(reference unobserved before: {ref_unobs_before})")
            ctx.stats.probe("metadata_counter_checked")
    child = Live(new, expected, live.lineage_sizes, "unknown", live.tag, group=(None if cli else live.group))
    _lineage_check(ctx, live, child, "reveal")
    _put(ctx, st, t, child)


def _poisoned_reveal(ctx, live, ids, sel, poison, cli, rnd):
    """fault store.poison-observed: the plate about to be revealed holds zeros / a NaN."""
    import h5py
    from batchie.data import Screen
    from batchie.retrospective import reveal_plates

    src = _save(ctx, live.screen, "poisoned.h5")
    idx = [i for i, s in enumerate(sel) if s]
    with h5py.File(src, "r+") as f:
        obs = f["observations"][:]
        if poison == "zero":
            obs[idx] = 0.0
        elif poison == "nan":
            obs[idx] = np.nan
        else:
            obs[rnd.choice(idx)] = np.nan
        f["observations"][...] = obs
    ctx.stats.fault(f"store.poison-observed:{poison}")
    ctx.fault_kinds.add("poison-" + poison)
    try:
        if cli:
            dst = ctx.scratch.file("adv_poison.h5")
            launch.run_cli("reveal_plate", ["--screen", src, "--output", dst, "--plate-id"] + ids)
        else:
            reveal_plates(Screen.load_h5(src), ids)
    except ValueError:
        ctx.log.ev("poison-refused")
        ctx.stats.oracle_evals += 1
        return
    except Exception as e:
        ctx.violation("C12.poison-crash", f"reveal_plates:{type(e).__name__}", f"poisoned reveal raised {e!r} instead of ValueError")
        return
    ctx.violation("C12.reveal-accepted-poison", f"reveal_plates:{poison}",
                  f"reveal of plates {ids} whose stored values were set to {poison} did not refuse")


def op_mask(ctx, st, t, value=False):
    from batchie.retrospective import mask_screen, unmask_screen

    live = ctx.pool[t]
    try:
        new = (unmask_screen if value else mask_screen)(live.screen)
    except Exception as e:
        ctx.log.ev("mask-raised", type(e).__name__)
        if ctx.prop in ("C12", "C03"):
            ctx.violation(f"{ctx.prop}.mask-crashed", "mask_screen", f"mask/unmask raised {e!r}")
        return
    expected = [(r[0], r[1], r[2], r[3], bool(value)) for r in live.rows]
    child = Live(new, expected, live.lineage_sizes, "unknown", live.tag, group=live.group)
    _lineage_check(ctx, live, child, "unmask" if value else "mask")
    _put(ctx, st, t, child)


def op_save_load(ctx, st, t):
    from batchie.data import Screen

    live = ctx.pool[t]
    cur = live.screen
    d_prev = None
    for c in range(st.get("cycles", 1)):
        try:
            p = _save(ctx, cur)
            new = Screen.load_h5(p)  # fresh object graph; only the file crossed
        except Exception as e:
            ctx.log.ev("save-load-raised", type(e).__name__)
            if ctx.prop == "C02":
                trig = type(e).__name__ + (":zero-row-screen" if cur.size == 0 else "")
                ctx.violation("C02.save-load-raised", trig, f"save/load of a constructible screen ({cur.size} rows) raised {e!r}")
            return
        if ctx.prop == "C02":
            _c02_compare(ctx, cur, new, c)
            if c == 0:
                # saving must not change the object that was saved: a second file of the same object reloads equal
                try:
                    again = Screen.load_h5(_save(ctx, cur, "again.h5"))
                    if ref.logical_screen_digest(again) != ref.logical_screen_digest(new):
                        ctx.violation("C02.second-save-differs", "Screen.save_h5", "saving the same screen object a second time gives a file that reloads differently")
                except Exception as e:
                    ctx.violation("C02.save-load-raised", f"second-save:{type(e).__name__}", f"saving the same object again raised {e!r}")
            d = ref.logical_screen_digest(new)
            if d_prev is not None and d != d_prev:
                ctx.violation("C02.not-fixed-point", "Screen", "second save/load cycle changed the logical digest")
            d_prev = d
        cur = new
    if st.get("torn") is not None:
        _torn_save(ctx, live.screen, st["torn"])
    if st.get("stale") is not None and ctx.prop in ("C02", "C03", "C12"):
        _save_over_stale(ctx, live.screen, st["stale"])
    sd, td, _, _ = ref.mapping_dicts(live.screen)
    child = Live(cur, list(live.rows), live.lineage_sizes, (sd, td), live.tag)
    _lineage_check(ctx, live, child, "save_load")
    ctx.log.ev("reloaded", ref.logical_screen_digest(cur))
    _put(ctx, st, t, child)
    if st.get("keep_original_last") and not st.get("rep") and live in ctx.pool:
        # the object that was saved stays the "most recent" one: it may be edited in place and saved again
        ctx.pool.remove(live)
        ctx.pool.append(live)


def _save_over_stale(ctx, screen, u):
    """fault leftover.stale-same-shape: the path the screen is saved to already holds a readable archive of ANOTHER screen
    with exactly the same numbers of rows and mapping entries (an earlier version of the same data set under shorter
    names).  What is loaded back afterwards must be the screen that was saved."""
    from batchie.data import Screen

    if screen.size == 0:
        return
    rnd = sub_rng(int(u * 2**31), "stale")
    try:
        def short(names):
            uniq = sorted({str(x) for x in np.asarray(names).ravel().tolist()})
            m = {n: (n if n == str(screen.control_treatment_name) else f"{i:x}") for i, n in enumerate(uniq)}
            return np.vectorize(lambda x: m[str(x)], otypes=[object])(np.asarray(names)).astype(str)

        other = Screen(treatment_names=short(screen.treatment_names), treatment_doses=np.asarray(screen.treatment_doses).copy(),
                       sample_names=short(screen.sample_names), plate_names=short(screen.plate_names),
                       observations=np.asarray(screen.observations)[::-1].copy(), observation_mask=np.asarray(screen.observation_mask).copy(),
                       control_treatment_name=screen.control_treatment_name)
        path = ctx.scratch.file("reused_path.h5")
        other.save_h5(path)
    except Exception:
        return  # (renaming can make plates collide with mixed status etc.: no stale file, nothing to judge)
    ctx.stats.fault("leftover.stale-same-shape")
    ctx.stats.oracle_evals += 1
    try:
        screen.save_h5(path)
        got = Screen.load_h5(path)
    except Exception as e:
        ctx.violation(f"{ctx.prop}.save-over-existing-archive-raised", type(e).__name__,
                      f"saving a screen to a path that already holds another screen's archive (same shape) raised {e!r}")
        return
    same = (ref.content_rows(got) == ref.content_rows(screen) and ref.row_ids(got) == ref.row_ids(screen)
            and ref.mapping_dicts(got) == ref.mapping_dicts(screen))
    if not same:
        ctx.violation(f"{ctx.prop}.stale-archive-shows-through", "Screen.save_h5",
                      "a screen saved to a path that already held another screen's archive (same numbers of rows and mapping "
                      "entries, shorter names) does not load back as itself")


def _torn_save(ctx, screen, u):
    """fault store.torn-save: the process is killed while the archive is being written (before the k-th dataset).  The
    file is closed as the interpreter unwinds, so what is left is a well-formed archive holding a prefix of the datasets.
    A later step that finds it must refuse it or read exactly what was being saved -- never something else."""
    from batchie.data import Screen

    counter = launch.FaultPoints(everywhere=True)
    try:
        with counter:
            screen.save_h5(ctx.scratch.file("count.h5"))
    except Exception:
        return
    n_writes = counter.seen.get("h5.write", 0)
    if not n_writes:
        return
    k = 1 + int(u * n_writes) % n_writes
    path = ctx.scratch.file("torn.h5")
    fp = launch.FaultPoints({"h5.write": k}, everywhere=True)
    try:
        with fp:
            screen.save_h5(path)
    except launch.SimKilled:
        pass
    except Exception:
        return
    if not fp.fired or not os.path.exists(path):
        return
    ctx.stats.fault("store.torn-save")
    ctx.stats.oracle_evals += 1
    try:
        got = Screen.load_h5(path)
    except Exception as e:
        ctx.log.ev("torn-refused", k, n_writes, type(e).__name__)
        ctx.stats.probe("torn_archive_refused")
        return
    same = (ref.content_rows(got) == ref.content_rows(screen) and ref.row_ids(got) == ref.row_ids(screen)
            and ref.mapping_dicts(got) == ref.mapping_dicts(screen)
            and str(got.control_treatment_name) == str(screen.control_treatment_name))
    ctx.log.ev("torn-loaded", k, n_writes, same)
    if not same:
        ctx.violation(f"{ctx.prop}.torn-archive-read-as-something-else", "Screen.load_h5",
                      f"an archive whose writing was cut off before dataset {k} of {n_writes} was accepted by load_h5 and gives a screen "
                      f"that differs from the one being saved (rows / ids / mappings / control name)")


def _c02_compare(ctx, a, b, cycle):
    ctx.stats.oracle_evals += 1
    ra, rb = ref.content_rows(a), ref.content_rows(b)
    problems = []
    if ra != rb:
        bad = [i for i, (x, y) in enumerate(zip(ra, rb)) if x != y][:3]
        problems.append(("rows", bad, [ra[i] for i in bad], [rb[i] for i in bad]))
    if str(a.control_treatment_name) != str(b.control_treatment_name):
        problems.append(("control_name", repr(a.control_treatment_name), repr(b.control_treatment_name)))
    if ref.row_ids(a) != ref.row_ids(b):
        problems.append(("ids", ref.row_ids(a)[:4], ref.row_ids(b)[:4]))
    sa, ta, lsa, lta = ref.mapping_dicts(a)
    sb, tb, lsb, ltb = ref.mapping_dicts(b)
    if sa != sb or lsa != lsb:
        problems.append(("sample_mapping", sorted(sa.items())[:6], sorted(sb.items())[:6], lsa, lsb))
    if ta != tb or lta != ltb:
        problems.append(("treatment_mapping", len(ta), len(tb), lta, ltb))
    pa = dict(zip(np.asarray(a.plate_mapping[0]).tolist(), np.asarray(a.plate_mapping[1]).tolist()))
    pb = dict(zip(np.asarray(b.plate_mapping[0]).tolist(), np.asarray(b.plate_mapping[1]).tolist()))
    if np.asarray(a.plate_ids).tolist() != np.asarray(b.plate_ids).tolist():
        problems.append(("plate_ids",))
    if np.asarray(a.treatment_names).shape != np.asarray(b.treatment_names).shape:
        problems.append(("shape",))
    excess = lta - len({t for r in ra for t in r[1]}) + lsa - len({r[0] for r in ra})
    nonascii = any(any(ord(ch) > 127 for ch in r[0] + r[3] + "".join(t[0] for t in r[1])) or r[0] == "" or r[3] == ""
                   or any(t[0] == "" for t in r[1]) for r in ra)
    if excess > 0:
        ctx.stats.probe("reload_mapping_excess")
    if nonascii:
        ctx.stats.probe("reload_nonascii_or_empty_names")
    if excess > 0 or nonascii:
        ctx.stats.probe("reload_compared_nontrivial")
    if any(np.isnan(np.array([r[2]], dtype=np.uint64).view(np.float64))[0] for r in ra):
        ctx.stats.probe("reload_with_nan_observation")
    ctx.log.ev("c02", cycle, len(problems))
    for p in problems:
        ctx.violation("C02.reload-differs", p[0], f"reloaded screen differs in {p[0]}: {p[1:]!r}"[:800])


def op_space_save_load(ctx, st, t):
    from batchie.data import ExperimentSpace

    live = ctx.pool[t]
    es = ExperimentSpace.from_screen(live.screen)
    try:
        p = ctx.scratch.file("space.h5")
        es.save_h5(p)
        es2 = ExperimentSpace.load_h5(p)
        p2 = ctx.scratch.file("space2.h5")
        es2.save_h5(p2)
        es3 = ExperimentSpace.load_h5(p2)
    except Exception as e:
        ctx.log.ev("space-raised", type(e).__name__)
        if ctx.prop == "C02":
            ctx.violation("C02.space-save-load-raised", type(e).__name__, f"experiment space save/load raised {e!r}")
        return
    if ctx.prop != "C02":
        return
    ctx.stats.oracle_evals += 1

    def view(e):
        tm, sm = e.treatment_mapping, e.sample_mapping
        return (
            [(str(n), int(f64_bits(np.array([d]))[0]), int(i)) for n, d, i in
             zip(np.asarray(tm[0]).tolist(), np.asarray(tm[1], dtype=float).tolist(), np.asarray(tm[2]).tolist())],
            [(str(n), int(i)) for n, i in zip(np.asarray(sm[0]).tolist(), np.asarray(sm[1]).tolist())],
            str(e.control_treatment_name), int(e.n_unique_treatments), int(e.n_unique_samples),
        )

    v1, v2, v3 = view(es), view(es2), view(es3)
    ctx.log.ev("space", digest(v1), digest(v2))
    if sorted(v1[0]) != sorted(v2[0]) or sorted(v1[1]) != sorted(v2[1]) or v1[2:] != v2[2:]:
        ctx.violation("C02.space-differs", "ExperimentSpace", f"reloaded experiment space differs: {v1!r} vs {v2!r}"[:800])
    if v2 != v3:
        ctx.violation("C02.space-not-fixed-point", "ExperimentSpace", "second experiment-space cycle changed it")


def op_split(ctx, st, t):
    from batchie.retrospective import create_plate_balanced_holdout_set_among_masked_plates

    live = ctx.pool[t]
    rng = np.random.default_rng(st["sub"])
    try:
        a, b = create_plate_balanced_holdout_set_among_masked_plates(live.screen, st.get("fraction", 0.5), rng)
    except Exception as e:
        ctx.log.ev("split-raised", type(e).__name__)
        return
    sd, td, _, _ = ref.mapping_dicts(live.screen)
    sizes = _expect_sizes(live.screen)
    for scr, tag in ((a, live.tag + "+tr"), (b, live.tag + "+te")):
        child = Live(scr, ref.content_rows(scr), sizes, (sd, td), tag)
        ctx.pool.append(child)
    while len(ctx.pool) > 8:
        del ctx.pool[2 if len(ctx.pool) > 3 else 0]
    ctx.log.ev("split", a.size, b.size)


def op_resplit_ctor(ctx, st, t):
    """C01: construct a Screen from a random row subset of a live screen, handing it that
    screen's own mappings (a mapping batchie produced for a superset of the data)."""
    from batchie.data import Screen

    live = ctx.pool[t]
    rnd = sub_rng(st["sub"], "resplit")
    s = live.screen
    n = s.size
    if n == 0:
        return
    keep = np.array([rnd.random() < 0.5 for _ in range(n)], dtype=bool)
    if rnd.random() < 0.4:
        # the part that is kept holds only the SHORTER names: the widest sample / treatment names occur in the mapping alone
        sn = [str(x) for x in np.asarray(s.sample_names).tolist()]
        tn = [max(len(str(y)) for y in row) for row in np.asarray(s.treatment_names).tolist()]
        ws, wt = max(len(x) for x in sn), max(tn)
        keep = np.array([len(a) < ws and b < wt for a, b in zip(sn, tn)], dtype=bool) if rnd.random() < 0.5 else \
            np.array([len(a) < ws for a in sn], dtype=bool)
    if not keep.any():
        keep[rnd.randrange(n)] = True
    try:
        new = Screen(treatment_names=s.treatment_names[keep], treatment_doses=s.treatment_doses[keep],
                     sample_names=s.sample_names[keep], plate_names=s.plate_names[keep],
                     observations=s.observations[keep], observation_mask=s.observation_mask[keep],
                     control_treatment_name=s.control_treatment_name,
                     treatment_mapping=s.treatment_mapping, sample_mapping=s.sample_mapping)
    except Exception as e:
        ctx.log.ev("resplit-raised", type(e).__name__)
        if ctx.prop == "C01":
            ctx.violation("C01.superset-mapping-rejected", "Screen.__init__",
                          f"constructor rejected a mapping batchie itself produced for a superset: {e!r}")
        return
    sd, td, _, _ = ref.mapping_dicts(s)
    rows = [r for r, k in zip(ref.content_rows(s), keep) if k]
    ctx.pool.append(Live(new, rows, live.lineage_sizes, (sd, td), live.tag + "+sub"))
    while len(ctx.pool) > 8:
        del ctx.pool[2 if len(ctx.pool) > 3 else 0]


def _hand_built_mappings(ctx, rnd, s, extra, shuffle_entries=True):
    """(treatment_mapping, sample_mapping, entries, sentries) for screen s: dense permuted ids, see op_perm_ctor."""
    control = str(s.control_treatment_name)
    conds = sorted({(str(n), float(d)) for n, d in zip(np.asarray(s.treatment_names).ravel().tolist(),
                                                         np.asarray(s.treatment_doses).ravel().tolist())},
                   key=lambda x: (x[0], x[1], math.copysign(1.0, x[1])))
    # -0.0 and 0.0 are one dose; keep one entry per (name, dose value)
    seen, uniq = set(), []
    for n, d in conds:
        k = ref.tkey(n, d)
        if k not in seen:
            seen.add(k)
            uniq.append((n, d))
    samples = sorted({str(x) for x in np.asarray(s.sample_names).tolist()})
    if extra == "huge":
        # a small screen inside a very large experiment space: ids beyond what two bytes hold
        n_extra = rnd.choice([33000, 33000, 66000])
        samples += [f"zz_space_s{k}" for k in range(n_extra) if f"zz_space_s{k}" not in samples]
        for k in range(n_extra + 1):
            cand = (f"zz_space_t{k}", 1.0)
            if ref.tkey(*cand) not in seen:
                uniq.append(cand)
        ctx.stats.probe("huge_experiment_space")
    elif extra:
        for k in range(rnd.randint(1, 3)):
            cand = (f"zz_extra{k}", 1.0 + k)
            if ref.tkey(*cand) not in seen:
                uniq.append(cand)
            if f"zz_extra_s{k}" not in samples:
                samples.append(f"zz_extra_s{k}")
    nonctl = [c for c in uniq if not ref.is_control_cell(c[0], c[1], control)]
    ids = list(range(len(nonctl)))
    rnd.shuffle(ids)
    tmap = {c: i for c, i in zip(nonctl, ids)}
    entries = [(n, d, tmap.get((n, d), -1)) for n, d in uniq]
    if shuffle_entries:
        rnd.shuffle(entries)
    sids = list(range(len(samples)))
    rnd.shuffle(sids)
    sentries = list(zip(samples, sids))
    if shuffle_entries:
        rnd.shuffle(sentries)
    tm = (np.array([e[0] for e in entries], dtype=str), np.array([e[1] for e in entries], dtype=float),
          np.array([e[2] for e in entries], dtype=int))
    sm = (np.array([e[0] for e in sentries], dtype=str), np.array([e[1] for e in sentries], dtype=int))
    return tm, sm, entries, sentries


def op_perm_ctor(ctx, st, t):
    """Construct a Screen from a live screen's rows with a HAND-BUILT mapping: a legal one (dense ids, covers the
    rows, control cells at the sentinel) whose ids are a random permutation rather than the sorted-unique
    numbering batchie would choose itself, listed in shuffled order, covering exactly the rows or a superset.
    Everything later in the history (save/load, reveal, mask, merge ...) must keep that numbering."""
    from batchie.data import Screen

    live = ctx.pool[t]
    rnd = sub_rng(st["sub"], "permctor")
    s = live.screen
    if s.size == 0:
        return
    tm, sm, entries, sentries = _hand_built_mappings(ctx, rnd, s, st.get("extra"))
    try:
        new = Screen(treatment_names=s.treatment_names.copy(), treatment_doses=s.treatment_doses.copy(),
                     sample_names=s.sample_names.copy(), plate_names=s.plate_names.copy(),
                     observations=s.observations.copy(), observation_mask=s.observation_mask.copy(),
                     control_treatment_name=s.control_treatment_name, treatment_mapping=tm, sample_mapping=sm)
    except Exception as e:
        ctx.log.ev("permctor-raised", type(e).__name__)
        ctx.violation(f"{ctx.prop}.legal-mapping-rejected", "Screen.__init__",
                      f"constructor rejected a dense mapping that covers the rows (ids permuted, entries shuffled): {e!r}")
        return
    ctx.stats.probe("hand_built_permuted_mapping")
    sd = {n: int(i) for n, i in sentries}
    td = {ref.tkey(n, d): int(i) for n, d, i in entries}
    ctx.pool.append(Live(new, ref.content_rows(s), live.lineage_sizes, (sd, td), live.tag + "+perm"))
    while len(ctx.pool) > 8:
        del ctx.pool[2 if len(ctx.pool) > 3 else 0]
    ctx.log.ev("permctor", len(entries), len(sentries))


def _private_copy(ctx, live):
    """In-place operations are applied to an un-aliased copy: reveal/mask results share
    their arrays with the screen they were derived from, and no property speaks about
    what an in-place edit of one does to the other."""
    from batchie.data import Screen

    try:
        copy = Screen.load_h5(_save(ctx, live.screen, "copy.h5"))
    except Exception:
        return None
    sd, td, _, _ = ref.mapping_dicts(live.screen)
    return Live(copy, list(live.rows), live.lineage_sizes, (sd, td), live.tag + "+copy")


def op_merge_plates(ctx, st, t):
    """Plate.merge renames rows and re-encodes plate ids IN PLACE (C01: plate ids stay dense and
    faithful; C02: a later save must store what the object now holds).  Plate handles are taken up
    front and reused across the merges of one operation, so a handle can be stale (taken before an
    earlier merge).  The live object itself is edited when nothing else shares its arrays."""
    src = ctx.pool[t]
    rnd = sub_rng(st["sub"], "merge")
    plates = sorted({r[3] for r in src.rows})
    if len(plates) < 2:
        return
    status = {p: {r[4] for r in src.rows if r[3] == p} for p in plates}
    same = {}
    for p in plates:
        if len(status[p]) == 1:
            same.setdefault(next(iter(status[p])), []).append(p)
    groups = [v for v in same.values() if len(v) >= 2]
    if not groups:
        return  # merging plates of different observation status would break the atomicity precondition
    names = rnd.choice(groups)
    names = rnd.sample(names, min(len(names), rnd.randint(2, 4)))
    exclusive = not any(o is not src and o.group == src.group for o in ctx.pool)
    inplace = exclusive and st.get("inplace", True)
    live = src if inplace else _private_copy(ctx, src)
    if live is None:
        return
    s = live.screen
    pid = ref.plate_id_of(live.rows)
    handles = {n: s.get_plate(pid[n]) for n in names}
    pairs = [(names[0], names[1])] if len(names) == 2 else \
        [(names[-2], names[-1]), (names[0], names[-1])] + ([(names[1], names[0])] if len(names) > 3 and rnd.random() < 0.5 else [])
    for a, b in pairs:
        sel = np.asarray(handles[a].selection_vector) | np.asarray(handles[b].selection_vector)
        before_names = {live.rows[i][3] for i in np.where(sel)[0]}
        try:
            handles[a].merge(handles[b])
        except Exception as e:
            ctx.log.ev("merge-raised", type(e).__name__)
            if not inplace:
                return
            break
        got_names = {str(x) for x in np.asarray(s.plate_names)[sel].tolist()}
        if len(got_names) != 1 or not got_names <= before_names:
            ctx.violation(f"{ctx.prop}.merge-names" if ctx.prop in ("C01", "C02") else "C01.merge-names", "Plate.merge",
                          f"merged rows carried names {sorted(before_names)} and now carry {sorted(got_names)}")
            return
        keep = next(iter(got_names))
        live.rows = [(r[0], r[1], r[2], keep if k else r[3], r[4]) for r, k in zip(live.rows, sel)]
        ctx.log.ev("merged", a, b, keep)
        ctx.stats.probe("plate_merge_in_place" + ("_on_live_object" if inplace else ""))
    if len(pairs) > 1:
        ctx.stats.probe("plate_merge_with_reused_handle")
    if not inplace:
        _put(ctx, st, t, live)


def op_set_observed(ctx, st, t):
    src = ctx.pool[t]
    rnd = sub_rng(st["sub"], "setobs")
    n = len(src.rows)
    if n == 0:
        return
    whole = st.get("whole", True)
    if whole:
        plates = sorted({r[3] for r in src.rows})
        chosen = set(rnd.sample(plates, rnd.randint(1, len(plates))))
        sel = np.array([r[3] in chosen for r in src.rows], dtype=bool)
        # whole plates: the live screen itself is edited in place (it stays plate-atomic)
        target = src if st.get("inplace", True) else _private_copy(ctx, src)
    else:
        # arbitrary selection: the result may hold partly observed plates, so it is a throw-away copy
        sel = np.array([rnd.random() < 0.4 for _ in range(n)], dtype=bool)
        target = _private_copy(ctx, src)
    if target is None:
        return
    k = int(sel.sum())
    vals = np.array([rnd.choice([0.0, 1.0, 0.5, rnd.random(), 5e-324, 1.0000000000000002]) for _ in range(k)], dtype=float)
    before = ref.content_rows(target.screen)
    try:
        target.screen.set_observed(sel, vals)
    except Exception as e:
        ctx.log.ev("set-observed-raised", type(e).__name__)
        if ctx.prop == "C12" and k > 0:
            ctx.violation("C12.set-observed-raised", type(e).__name__, f"set_observed raised {e!r}")
        return
    bits = f64_bits(vals).tolist()
    it = iter(bits)
    expected = [(r[0], r[1], int(next(it)) if s else r[2], r[3], True if s else r[4]) for r, s in zip(before, sel)]
    got = ref.content_rows(target.screen)
    ctx.log.ev("set_observed", k, digest(got), target is src)
    if ctx.prop == "C12":
        ctx.stats.oracle_evals += 1
        ctx.stats.probe("set_observed_checked")
        if got != expected:
            bad = [i for i, (x, y) in enumerate(zip(got, expected)) if x != y][:3]
            ctx.violation("C12.set-observed-inexact", "Screen.set_observed",
                          f"set_observed did not store exactly the given values at exactly the selected rows; rows {bad}: "
                          f"got {[got[i] for i in bad]} want {[expected[i] for i in bad]}")
    if whole:
        target.rows = expected
        if target is src:
            ctx.stats.probe("set_observed_in_place_on_live_screen")
            # screens of the same storage group may see the new VALUES at the same rows (shared observation
            # array); their masks, and everything of every other screen, must be untouched (judged by _check_all)
            it2 = iter(bits)
            newbits = [int(next(it2)) if s else None for s in sel]
            for other in ctx.pool:
                if other is src or other.group != src.group or len(other.rows) != n:
                    continue
                actual = ref.content_rows(other.screen)
                cand = [(r[0], r[1], (b if b is not None else r[2]), r[3], r[4]) for r, b in zip(other.rows, newbits)]
                if actual == cand:
                    other.rows = cand
        else:
            _put(ctx, st, t, target)


def op_construct(ctx, st, t):
    """C12 constructor clauses, on a fresh variation of the live screen's content."""
    from batchie.data import Screen

    if ctx.prop != "C12":
        return
    live = ctx.pool[t]
    rnd = sub_rng(st["sub"], "construct")
    s = live.screen
    n = s.size
    if n == 0:
        return
    kind = st["kind"]
    base = dict(treatment_names=s.treatment_names.copy(), treatment_doses=s.treatment_doses.copy(),
                sample_names=s.sample_names.copy(), plate_names=s.plate_names.copy(),
                control_treatment_name=s.control_treatment_name)
    ctx.stats.oracle_evals += 1
    if kind == "mixed":
        plates = {}
        for i, r in enumerate(live.rows):
            plates.setdefault(r[3], []).append(i)
        big = [p for p, idx in plates.items() if len(idx) >= 2]
        if not big:
            return
        p = rnd.choice(sorted(big))
        mask = np.array([r[4] for r in live.rows], dtype=bool)
        flip = rnd.choice(plates[p])
        mask[flip] = not mask[flip]
        try:
            Screen(observations=s.observations.copy(), observation_mask=mask, **base)
        except ValueError:
            ctx.log.ev("mixed-rejected")
            ctx.stats.probe("mixed_plate_rejected")
            return
        except Exception as e:
            ctx.violation("C12.mixed-plate-crash", type(e).__name__, f"mixed plate raised {e!r}")
            return
        ctx.violation("C12.mixed-plate-accepted", "Screen.__init__",
                      f"constructor accepted plate {p!r} with mixed observation status")
    elif kind == "obs_no_mask":
        # the stored values may hold anything, NaN / 0 / negative included (a whole plate of them, or a few wells):
        # without a mask every experiment counts as observed, whatever its value
        obs = s.observations.copy()
        mode = rnd.choice(["as-is", "as-is", "nan-plate", "nan-some", "zero-plate", "negative-some"])
        if mode != "as-is":
            pl = rnd.choice(sorted(set(np.asarray(s.plate_names).tolist())))
            idx = [i for i, p in enumerate(np.asarray(s.plate_names).tolist()) if p == pl]
            if mode.endswith("some"):
                idx = rnd.sample(idx, max(1, len(idx) // 2))
            obs[idx] = {"nan": float("nan"), "zero": 0.0, "negative": -0.5}[mode.split("-")[0]]
        try:
            new = Screen(observations=obs.copy(), **base)
        except Exception as e:
            ctx.violation("C12.ctor-raised", "obs_no_mask", f"constructor with observations ({mode}) and no mask raised {e!r}")
            return
        if not bool(np.all(new.observation_mask)) or len(new.observation_mask) != n:
            ctx.violation("C12.obs-without-mask", "Screen.__init__", f"observations ({mode}) given without a mask are not all observed")
        if f64_bits(new.observations).tolist() != f64_bits(obs).tolist():
            ctx.violation("C12.obs-without-mask", "values", "observations changed by construction")
    elif kind == "no_obs":
        try:
            new = Screen(**base)
        except Exception as e:
            ctx.violation("C12.ctor-raised", "no_obs", f"constructor without observations raised {e!r}")
            return
        if bool(np.any(new.observation_mask)) or len(new.observation_mask) != n:
            ctx.violation("C12.no-observations", "Screen.__init__", "a screen built without observations reports observed rows")
    else:  # mask without observations must be refused (constructor contract)
        try:
            Screen(observation_mask=np.ones(n, dtype=bool), **base)
        except ValueError:
            return
        except Exception:
            return
        ctx.log.ev("mask-no-obs-accepted")


def op_corrupt_mapping(ctx, st, t):
    """fault store.corrupt-mapping: the stored id mapping is made non-dense or stops covering
    the data; load_h5 must reject the file."""
    import h5py
    from batchie.data import Screen

    if ctx.prop != "C01":
        return
    live = ctx.pool[t]
    rnd = sub_rng(st["sub"], "corrupt")
    try:
        p = _save(ctx, live.screen, "corrupt.h5")
    except Exception:
        return
    kind = st["kind"]
    applied = False
    with h5py.File(p, "r+") as f:
        tm_ids = f["treatment_mapping_ids"][:]
        tm_names = f["treatment_mapping_names"][:]
        tm_doses = f["treatment_mapping_doses"][:]
        sm_ids = f["sample_mapping_ids"][:]
        sm_names = f["sample_mapping_names"][:]
        row_t = f["treatment_ids"][:]
        row_s = f["sample_ids"][:]

        def rewrite(name, data):
            del f[name]
            f.create_dataset(name, data=data)

        nonctl = sorted(set(int(x) for x in tm_ids if x != -1))
        if kind == "gap" and len(nonctl) >= 2:
            # shift every id >= g up by one: ids stay distinct but are no longer 0..n-1
            g = rnd.choice(nonctl[:-1]) if len(nonctl) > 1 else nonctl[0]
            new = np.where(tm_ids >= max(g, 0), tm_ids + 1, tm_ids)
            if g == 0:
                new = np.where(tm_ids >= 0, tm_ids + 1, tm_ids)
            rewrite("treatment_mapping_ids", new)
            applied = True
        elif kind == "dup_id" and len(nonctl) >= 2:
            # two conditions share one id and the top id disappears -> not dense
            hi = nonctl[-1]
            new = np.where(tm_ids == hi, nonctl[0], tm_ids)
            if len(set(int(x) for x in new if x != -1)) == len(nonctl) - 1 and hi != len(nonctl) - 2:
                rewrite("treatment_mapping_ids", new)
                # dropping the top id keeps 0..n-2 dense: only a *gap* is detectable, so make one
                new2 = np.where(new == nonctl[0], hi + 1, new) if len(nonctl) > 2 else new + 0
                rewrite("treatment_mapping_ids", new2)
                applied = not _is_dense(new2)
        elif kind == "uncover_treatment":
            used = sorted(set(int(x) for x in row_t.ravel()))
            cand = [i for i in range(len(tm_ids)) if int(tm_ids[i]) in used]
            # remove a mapping entry that a row needs, keeping the remaining ids dense:
            # only the entry with the highest id can go without creating a gap
            top = max(nonctl) if nonctl else None
            if top is not None and top in used and sum(1 for x in tm_ids if x == top) == 1:
                keep = tm_ids != top
                rewrite("treatment_mapping_ids", tm_ids[keep])
                rewrite("treatment_mapping_names", tm_names[keep])
                rewrite("treatment_mapping_doses", tm_doses[keep])
                applied = True
        elif kind == "uncover_sample":
            used = set(int(x) for x in row_s)
            top = int(sm_ids.max()) if len(sm_ids) else None
            if top is not None and top in used and len(sm_ids) >= 1:
                keep = sm_ids != top
                rewrite("sample_mapping_ids", sm_ids[keep])
                rewrite("sample_mapping_names", sm_names[keep])
                applied = True
        elif kind == "sample_gap" and len(sm_ids) >= 1:
            rewrite("sample_mapping_ids", sm_ids + 1)
            applied = True
    if not applied:
        ctx.log.ev("corrupt-skipped", kind)
        return
    ctx.stats.fault(f"store.corrupt-mapping:{kind}")
    ctx.fault_kinds.add(kind)
    ctx.stats.oracle_evals += 1
    try:
        s = Screen.load_h5(p)
    except ValueError:
        ctx.log.ev("corrupt-rejected", kind)
        return
    except Exception as e:
        ctx.log.ev("corrupt-rejected-other", kind, type(e).__name__)
        # any refusal is a rejection; the statement does not name the exception type
        return
    ctx.violation("C01.corrupt-mapping-accepted", kind,
                  f"load_h5 returned a screen (size {s.size}) from a file whose stored mapping was corrupted ({kind})")


def _is_dense(ids):
    nz = sorted(set(int(x) for x in ids if x != -1))
    return nz == list(range(len(nz)))


OPS = {
    "reveal": lambda c, s, t: op_reveal(c, s, t, cli=False),
    "reveal_cli": lambda c, s, t: op_reveal(c, s, t, cli=True),
    "mask": lambda c, s, t: op_mask(c, s, t, False),
    "unmask": lambda c, s, t: op_mask(c, s, t, True),
    "save_load": op_save_load,
    "space_save_load": op_space_save_load,
    "split": op_split,
    "resplit_ctor": op_resplit_ctor,
    "merge_plates": op_merge_plates,
    "set_observed": op_set_observed,
    "construct": op_construct,
    "perm_ctor": op_perm_ctor,
    "corrupt_mapping": op_corrupt_mapping,
}


# ----------------------------------------------------------------------------- invariants


def _lineage_check(ctx, parent, child, op):
    if ctx.prop != "C03":
        return
    try:
        nt, ns = _expect_sizes(child.screen)
    except Exception as e:
        ctx.violation("C03.sizes-crashed", op, f"experiment space of derived screen raised {e!r}")
        return
    pt, ps = parent.lineage_sizes
    ctx.stats.oracle_evals += 1
    ctx.log.ev("sizes", op, nt, ns, pt, ps)
    if nt < pt or ns < ps:
        ctx.violation("C03.embedding-size-shrank", op,
                      f"after {op}: n_unique_treatments {pt} -> {nt}, n_unique_samples {ps} -> {ns}")
    child.lineage_sizes = (nt, ns)  # each shrink is reported once, at the operation that caused it
    child.tainted = parent.tainted


def _check_all(ctx, when):
    prop = ctx.prop
    for k, live in enumerate(ctx.pool):
        got = ref.content_rows(live.screen)
        ctx.log.ev("live", k, digest(got), digest(ref.row_ids(live.screen)))
        if got != live.rows:
            bad = [i for i, (x, y) in enumerate(zip(got, live.rows)) if x != y][:3]
            oid = {"C12": "C12.content-changed", "C03": "C03.content-changed", "C02": "C02.content-changed",
                   "C01": "C01.content-changed"}[prop]
            ctx.violation(oid, when, f"live screen {k} ({live.tag}) differs from the reference at rows {bad}: "
                          f"got {[got[i] for i in bad]} want {[live.rows[i] for i in bad]}; sizes {len(got)}/{len(live.rows)}")
            live.rows = got  # re-sync so that one defect is reported once
        if prop == "C12":
            ctx.stats.oracle_evals += 1
            by_plate = {}
            for r in got:
                by_plate.setdefault(r[3], set()).add(r[4])
            mixed = [p for p, v in by_plate.items() if len(v) > 1]
            if mixed:
                ctx.violation("C12.plate-not-atomic", when, f"plates {mixed[:3]} are partly observed")
        elif prop == "C03":
            _c03_invariants(ctx, live, when)
        elif prop == "C01":
            _c01_monitor(ctx, live, when)


def _c03_invariants(ctx, live, when):
    if live.tainted:
        return  # descendants of a screen already reported are not judged again (one defect, one report)
    sd0, td0 = ctx.frozen
    s = live.screen
    ctx.stats.oracle_evals += 1
    sd, td, _, _ = ref.mapping_dicts(s)
    trigger = when.split(":")[-1]
    n_before = len(ctx.viol)
    try:
        _c03_judge(ctx, live, when, trigger, s, sd, td, sd0, td0)
    finally:
        if len(ctx.viol) > n_before:
            live.tainted = True


def _c03_judge(ctx, live, when, trigger, s, sd, td, sd0, td0):
    bad_s = {k: (v, sd0[k]) for k, v in sd.items() if k in sd0 and sd0[k] != v}
    bad_t = {k: (v, td0[k]) for k, v in td.items() if k in td0 and td0[k] != v}
    if bad_s or bad_t:
        ctx.violation("C03.mapping-renumbered", trigger,
                      f"{live.tag} screen {when}: mapping disagrees with the prepared simulation's ids: "
                      f"samples {dict(list(bad_s.items())[:3])} treatments {dict(list(bad_t.items())[:3])} (got, frozen)")
    # the other direction: an id keeps its name (a mapping entry that was renamed, e.g. truncated, assigns
    # the id of one sample / condition to another name even if no row of this screen uses it)
    inv_s0 = {v: k for k, v in sd0.items()}
    inv_t0 = {v: k for k, v in td0.items() if v != ref.CONTROL}
    ren_s = {v: (k, inv_s0[v]) for k, v in sd.items() if v in inv_s0 and inv_s0[v] != k and k not in sd0}
    ren_t = {v: (k, inv_t0[v]) for k, v in td.items() if v != ref.CONTROL and v in inv_t0 and inv_t0[v] != k and k not in td0}
    if ren_s or ren_t:
        ctx.violation("C03.mapping-renamed", trigger,
                      f"{live.tag} screen {when}: ids now belong to other names than in the prepared simulation: "
                      f"samples {dict(list(ren_s.items())[:3])} treatments {dict(list(ren_t.items())[:3])} (id: (now, prepared))")
    ids = ref.row_ids(s)
    for i, (r, (sid, tids, _)) in enumerate(zip(live.rows, ids)):
        want_s = sd0.get(r[0])
        want_t = tuple(td0.get(t) for t in r[1])
        if want_s != sid or want_t != tids:
            ctx.violation("C03.row-id-changed", trigger,
                          f"{live.tag} screen {when}: row {i} {r[0]!r},{r[1]!r} has ids ({sid},{tids}) but the prepared "
                          f"simulation assigned ({want_s},{want_t})")
            break
    if ctx.theta is not None and len(live.rows) and ctx.theta.V0.shape[0] > 0 and ctx.theta.W0.shape[0] > 0:
        want_ids_s = [sd0.get(r[0]) for r in live.rows]
        want_ids_t = [[td0.get(t) for t in r[1]] for r in live.rows]
        if any(x is None for x in want_ids_s) or any(x is None for t in want_ids_t for x in t):
            i = next(k for k, (a, b) in enumerate(zip(want_ids_s, want_ids_t)) if a is None or any(x is None for x in b))
            ctx.violation("C03.row-name-unknown", trigger,
                          f"{live.tag} screen {when}: row {i} {live.rows[i][:2]!r} carries a sample / (treatment, dose) the "
                          f"prepared simulation never had (names were rewritten on the way)")
            return
        view = ref.IdView(want_ids_s, want_ids_t)
        want = ctx.theta.predict_conditional_mean(view)
        want_v = ctx.theta.predict_viability(view)
        try:
            got = ctx.theta.predict_conditional_mean(s)
            got_v = ctx.theta.predict_viability(s)
        except Exception as e:
            ctx.violation("C03.prediction-changed", trigger,
                          f"{live.tag} screen {when}: posterior sample sized by the first stage cannot index this stage's ids: {e!r}")
            return
        ctx.log.ev("pred", digest(np.asarray(got)))
        if f64_bits(got).tolist() != f64_bits(want).tolist() or f64_bits(got_v).tolist() != f64_bits(want_v).tolist():
            i = int(np.argmax(np.asarray(got) != np.asarray(want)))
            ctx.violation("C03.prediction-changed", trigger,
                          f"{live.tag} screen {when}: prediction for row {i} {live.rows[i][:2]!r} is {float(got[i])!r}, "
                          f"the same experiment at the first stage predicts {float(want[i])!r}")


def _c01_monitor(ctx, live, when):
    from batchie.data import ExperimentSpace

    s = live.screen
    ctx.stats.oracle_evals += 1
    control = str(s.control_treatment_name)
    sd, td, ls, lt = ref.mapping_dicts(s)
    ids = ref.row_ids(s)
    rows = live.rows
    trigger = when.split(":")[-1]
    tm_names = np.asarray(s.treatment_mapping[0]).tolist()
    tm_doses = np.asarray(s.treatment_mapping[1], dtype=float).tolist()
    tm_ids = [int(x) for x in np.asarray(s.treatment_mapping[2]).tolist()]
    # (1)+(2) decode and control sentinel
    for i, (r, (sid, tids, pid)) in enumerate(zip(rows, ids)):
        for k, t in enumerate(r[1]):
            tid = tids[k]
            ctl = ref.is_control_cell(t[0], t[1], control)
            if (tid == -1) != ctl:
                ctx.violation("C01.control-sentinel", trigger,
                              f"row {i} col {k} {t!r} (control name {control!r}) has id {tid}")
                return
            if td.get(t) != tid:
                ctx.violation("C01.decode", trigger, f"row {i} col {k} {t!r} has id {tid} but the mapping says {td.get(t)}")
                return
        if sd.get(r[0]) != sid:
            ctx.violation("C01.decode-sample", trigger, f"row {i} sample {r[0]!r} has id {sid} but the mapping says {sd.get(r[0])}")
            return
    # non-control ids decode to one key only
    by_id = {}
    for n, d, i in zip(tm_names, tm_doses, tm_ids):
        if i != -1:
            by_id.setdefault(i, set()).add(ref.tkey(n, d))
    amb = {i: v for i, v in by_id.items() if len(v) > 1}
    if amb:
        ctx.violation("C01.id-not-injective", trigger, f"treatment ids shared by different conditions: {amb}")
    # every control-classified mapping entry is -1 and vice versa
    for n, d, i in zip(tm_names, tm_doses, tm_ids):
        if (i == -1) != ref.is_control_cell(n, d, control) and live.supplied is None:  # own encoding only
            ctx.violation("C01.control-sentinel-mapping", trigger, f"mapping entry ({n!r},{d!r}) has id {i}")
            break
    # (3) density / (4) verbatim
    nz = sorted(set(i for i in tm_ids if i != -1))
    if nz != list(range(len(nz))):
        ctx.violation("C01.not-dense", f"treatment:{trigger}", f"non-control treatment ids are {nz}")
    sids = sorted(set(sd.values()))
    if sids != list(range(len(sids))) or len(sd) != len(sids):
        ctx.violation("C01.not-dense", f"sample:{trigger}", f"sample ids are {sorted(sd.items())}")
    if live.supplied == "unknown":
        pass  # built by reveal/mask: whether a mapping was handed on is that function's business (C03)
    elif live.supplied is not None:
        ssd, std = live.supplied
        if any(ssd.get(k) != v for k, v in sd.items()) or any(std.get(k) != v for k, v in td.items()):
            ctx.violation("C01.supplied-mapping-not-followed", trigger, "screen's mapping differs from the supplied one")
        excess = (len(std) - len({t for r in rows for t in r[1]})) + (len(ssd) - len({r[0] for r in rows}))
        if excess > 0:
            ctx.stats.probe("monitored_supplied_superset_mapping")
    else:
        # sorted-unique encoding: present keys only, ranks in (name, dose) order among non-control
        present = sorted({t for r in rows for t in r[1] if not ref.is_control_cell(t[0], t[1], control)})
        want = {k: i for i, k in enumerate(present)}
        got = {k: v for k, v in td.items() if v != -1}
        if got != want:
            ctx.violation("C01.encoding", f"treatment:{trigger}", f"treatment encoding {got} != sorted-unique {want}")
        want_s = ref.dense_rank([r[0] for r in rows])
        if sd != want_s:
            ctx.violation("C01.encoding", f"sample:{trigger}", f"sample encoding {sd} != sorted-unique {want_s}")
    # plate ids: always dense, equal iff equal name
    want_p = ref.plate_id_of(rows)
    for r, (_, _, pid) in zip(rows, ids):
        if want_p[r[3]] != pid:
            ctx.violation("C01.plate-ids", trigger, f"plate {r[3]!r} has id {pid}, dense sorted-unique id is {want_p[r[3]]}")
            break
    # (5) experiment-space sizes strictly bound every id
    es = ExperimentSpace.from_screen(s)
    max_t = max([t for _, tids, _ in ids for t in tids], default=-1)
    max_s = max([sid for sid, _, _ in ids], default=-1)
    if not (es.n_unique_treatments > max_t and es.n_unique_samples > max_s):
        ctx.violation("C01.space-size", trigger,
                      f"sizes ({es.n_unique_treatments},{es.n_unique_samples}) do not bound ids ({max_t},{max_s})")


def reducers(prop, plan):
    """Argument reducers tried after ddmin on steps: fewer rows, no preparation faults."""
    rows = plan["screen"]["rows"]
    if len(rows) > 2:
        for i in range(len(rows)):
            cand = json.loads(json.dumps(plan))
            del cand["screen"]["rows"][i]
            yield cand
    for i, st in enumerate(plan["steps"]):
        if st.get("cycles", 1) > 1:
            cand = json.loads(json.dumps(plan))
            cand["steps"][i]["cycles"] = 1
            yield cand
        if st.get("op") == "reveal_cli":
            cand = json.loads(json.dumps(plan))
            cand["steps"][i]["op"] = "reveal"
            yield cand
