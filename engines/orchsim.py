"""orchsim: the real orchestration script (nextflow/scripts/batchie.py) under crash / restart.

The script's only state is its output directory.  It is loaded by path in a fresh module instance
for every (re)start; its module globals os / shutil / glob / subprocess are replaced by proxies:
real operations on a scratch tree, executed one primitive at a time with a crash point before
each, listing order permuted by the schedule stream, and subprocess.check_call routed to a stub
of the three nextflow workflows (DAG, seeded completion order, per-file publication with crash
points between any two published files).  Process bodies are MODEL (JSON blobs carrying the
digests of their inputs) or REAL (batchie's CLI mains).  Serves C19.
"""
from __future__ import annotations

import glob as _glob
import hashlib
import importlib.util
import json
import os
import random
import re
import shutil as _shutil
import subprocess as _subprocess
import sys

import numpy as np

from simkit import gen, launch, pipe
from simkit.kernel import EventLog, Forks, HarnessError, RunStats, Scratch, Violation, digest, h64
from simkit.runner import repo_dir

SPEC = {
    "C19": dict(engine="orchsim", level="fault_enumeration", runs=dict(quick=1500, thorough=20000), chunk=10, run_timeout=600,
                rule="per run: one configuration (mode, batch size 1-4, 2-7 plates, chains, chunks); a fault-free census run numbers "
                     "every crash site (each mkdir of makedirs, each entry removed by rmtree, each launch, each process completion, "
                     "each published file) and yields the reference trace; then one run with 1-2 crash sites drawn uniformly over "
                     "the census (thorough: ALL single crash sites of the configuration are enumerated, pairs sampled, up to 3 crashes, "
                     "asynchronous publication order), restarts in fresh module instances, operator deletions exactly as prescribed; "
                     "non-trivial if at least one crash fired and the run afterwards completed >= 1 step; distinct = distinct "
                     "(mode, batch size, crash-site class, abstract shape of the output tree at the crash) tuples",
                real=["nextflow/scripts/batchie.py (loaded by path, real control flow, real file-system effects on a scratch tree)",
                      "REAL process bodies (sampled share): batchie.cli.* mains; real HDF5 / JSON files"],
                stub=["nextflow: hand-written model of the three workflows' DAGs, staging and publishDir (cross-checked against the "
                      ".nf sources by a regex extractor at every start; mismatch = harness error)",
                      "MODEL process bodies (default): JSON blobs carrying the digests of their inputs, same file names and formats "
                      "of screen_metadata.json / selected_plate", "analyze_model_evaluation (touches its output directory)"],
                assumptions=["publication is per-file atomic and, in the quick tier, in completion order (asynchronous order only in the "
                             "thorough tier, tallied apart as publish.reorder)",
                             "a CLI process is atomic apart from its published files",
                             "the operator deletes exactly the directory the script names, nothing else"]),
}

N_SESSIONS_PROSPECTIVE = 3


class SimCrash(BaseException):
    pass


class SimLivelock(BaseException):
    """The script keeps launching workflows far beyond what an uninterrupted execution needs."""


def preload(prop):
    launch.preload_cli()


# ============================================================ workflow model self-check


NF_FILES = {
    "retrospective": ["nextflow/workflows/nf-core/batchie/retrospective_simulation/main.nf",
                      "nextflow/subworkflows/nf-core/batchie/run_retrospective_step/main.nf"],
    "prospective": ["nextflow/workflows/nf-core/batchie/prospective/main.nf",
                    "nextflow/subworkflows/nf-core/batchie/run_prospective_step/main.nf"],
    "next_plate": ["nextflow/workflows/nf-core/batchie/next_batch_plate/main.nf",
                   "nextflow/subworkflows/nf-core/batchie/select_next_batch_plate/main.nf"],
}

# process -> upstream processes whose outputs it consumes (the stub's dependency table)
STUB_EDGES = {
    "retrospective": {
        "PREPARE_RETROSPECTIVE_SIMULATION": set(), "RUN_RETROSPECTIVE_STEP": {"PREPARE_RETROSPECTIVE_SIMULATION"},
        "TRAIN_MODEL": set(), "EVALUATE_MODEL": {"TRAIN_MODEL"}, "ANALYZE_MODEL_EVALUATION": {"TRAIN_MODEL", "EVALUATE_MODEL"},
        "CALCULATE_DISTANCE_MATRIX_CHUNK": {"TRAIN_MODEL"}, "CALCULATE_SCORE_CHUNK": {"TRAIN_MODEL", "CALCULATE_DISTANCE_MATRIX_CHUNK"},
        "SELECT_NEXT_PLATE": {"CALCULATE_SCORE_CHUNK"}, "REVEAL_PLATE": {"SELECT_NEXT_PLATE"},
        "EXTRACT_SCREEN_METADATA": {"RUN_RETROSPECTIVE_STEP"},
    },
    "prospective": {
        "RUN_PROSPECTIVE_STEP": set(), "TRAIN_MODEL": set(), "EVALUATE_MODEL": {"TRAIN_MODEL"},
        "ANALYZE_MODEL_EVALUATION": {"TRAIN_MODEL", "EVALUATE_MODEL"}, "CALCULATE_DISTANCE_MATRIX_CHUNK": {"TRAIN_MODEL"},
        "CALCULATE_SCORE_CHUNK": {"TRAIN_MODEL", "CALCULATE_DISTANCE_MATRIX_CHUNK"}, "SELECT_NEXT_PLATE": {"CALCULATE_SCORE_CHUNK"},
        "EXTRACT_SCREEN_METADATA": set(),
    },
    "next_plate": {
        "SELECT_NEXT_BATCH_PLATE": set(), "CALCULATE_SCORE_CHUNK": set(), "SELECT_NEXT_PLATE": {"CALCULATE_SCORE_CHUNK"},
        "REVEAL_PLATE": {"SELECT_NEXT_PLATE"}, "EXTRACT_SCREEN_METADATA": {"SELECT_NEXT_BATCH_PLATE"},
    },
}


def extract_edges(text):
    """process call -> set of X for every `X.out` referenced in the channel expression that is
    handed to the call (found by following `.tap { name }` / `name = ...` definitions)."""
    # channel definitions: `... .tap { name }` blocks and `name = expr` assignments
    defs = {}
    for m in re.finditer(r"((?:[^\n]*\n)*?[^\n]*?)\.tap\s*\{\s*(\w+)\s*\}", text):
        block = m.group(1)
        # the expression is the trailing statement of the block (back to a blank line)
        stmt = block.split("\n\n")[-1]
        defs[m.group(2)] = stmt
    for m in re.finditer(r"^\s*(\w+)\s*=\s*([^\n]+(?:\n\s+\.[^\n]+)*)", text, re.M):
        defs.setdefault(m.group(1), m.group(2))
        if m.group(1) in ("output", "prepared_input"):
            defs[m.group(1)] = defs[m.group(1)] + "\n" + m.group(2)
    edges = {}
    for m in re.finditer(r"^\s*([A-Z][A-Z_]+)\s*\(\s*([^)]*)\)", text, re.M):
        name, arg = m.group(1), m.group(2)
        ups = set(re.findall(r"([A-Z][A-Z_]+)\.out", arg))
        for ident in re.findall(r"\b([a-z_]\w*)\b", arg):
            if ident in defs:
                ups |= set(re.findall(r"([A-Z][A-Z_]+)\.out", defs[ident]))
        edges.setdefault(name, set()).update(ups - {name})
    return edges


_SELFCHECK_DONE = {}


def selfcheck(prop):
    root = repo_dir()
    for mode, files in NF_FILES.items():
        got = {}
        for f in files:
            path = os.path.join(root, f)
            if not os.path.exists(path):
                raise HarnessError(f"workflow model out of date: {f} is missing")
            for k, v in extract_edges(open(path).read()).items():
                got.setdefault(k, set()).update(v)
        got = {k: v for k, v in got.items() if k in STUB_EDGES[mode] or v}
        want = STUB_EDGES[mode]
        if got != want:
            diff = {k: (sorted(got.get(k, [])), sorted(want.get(k, []))) for k in set(got) | set(want) if got.get(k) != want.get(k)}
            raise HarnessError(f"workflow model out of date ({mode}): (from .nf, stub) differ at {diff}")


# ==================================================================== simulator core


class Sim:
    def __init__(self, root, plan, log, stats, crash_ticks=None, reorder=False, real=False):
        self.root = root
        self.plan = plan
        self.log = log
        self.stats = stats
        self.crash_ticks = set(crash_ticks or ())
        self.tick_no = 0
        self.census = []
        self.history = []  # recorded history for the oracles
        self.completed = {}  # outdir -> record of a workflow run that finished completely
        self.launch_count = {}
        self.reorder = reorder
        self.real = real
        self.pending_publish = []
        self.crashes_fired = 0
        self.work_n = 0
        self.n_launches = 0
        self.launch_cap = None
        self.dyn_rmtree = 0  # crash at the k-th entry removed by rmtree after the first crash (0 = off)
        self.delivery = []  # per crash: kill | nonzero-exit | ctrl-c
        self._rm_seen = 0

    def tick(self, kind):
        self.tick_no += 1
        self.census.append(kind)
        dyn = False
        if self.dyn_rmtree and self.crashes_fired >= 1 and kind == "rmtree-entry":
            self._rm_seen += 1
            if self._rm_seen == self.dyn_rmtree:
                dyn = True
                self.dyn_rmtree = 0
        if self.tick_no in self.crash_ticks or dyn:
            self.crashes_fired += 1
            self.stats.fault("crash." + kind.split(":")[0])
            self.history.append(("crash", self.tick_no, kind))
            self.log.ev("crash", self.tick_no, kind)
            self.pending_publish = []  # un-drained publications die with the workflow
            raise SimCrash(kind)

    def rel(self, path):
        return os.path.relpath(path, self.root)


class OsProxy:
    def __init__(self, sim):
        self._sim = sim
        self.path = os.path

    def __getattr__(self, name):
        return getattr(os, name)

    def makedirs(self, path, exist_ok=False):
        path = os.path.abspath(path)
        todo = []
        p = path
        while not os.path.isdir(p):
            todo.append(p)
            p = os.path.dirname(p)
        if not todo and not exist_ok:
            raise FileExistsError(path)
        for d in reversed(todo):
            self._sim.tick("mkdir")
            os.mkdir(d)
            self._sim.history.append(("mkdir", self._sim.rel(d)))


class ShutilProxy:
    def __init__(self, sim):
        self._sim = sim

    def __getattr__(self, name):
        return getattr(_shutil, name)

    def rmtree(self, path, ignore_errors=False):
        sim = self._sim
        path = os.path.abspath(path)
        sim.history.append(("rmtree", sim.rel(path)))
        if not os.path.lexists(path):
            if ignore_errors:
                return
            raise FileNotFoundError(path)
        for dirpath, dirnames, filenames in os.walk(path, topdown=False):
            for f in sorted(filenames):
                sim.tick("rmtree-entry")
                os.unlink(os.path.join(dirpath, f))
            for d in sorted(dirnames):
                full = os.path.join(dirpath, d)
                sim.tick("rmtree-entry")
                if os.path.islink(full):
                    os.unlink(full)
                else:
                    os.rmdir(full)
        sim.tick("rmtree-entry")
        os.rmdir(path)


class GlobProxy:
    def __init__(self, sim, rnd):
        self._sim = sim
        self._rnd = rnd

    def glob(self, pattern, **kw):
        res = sorted(_glob.glob(pattern, **kw))
        self._rnd.shuffle(res)  # directory listing order is not defined
        return res


class SubprocessProxy:
    """The script's view of `subprocess`.  An interruption that hits while the pipeline run is in flight reaches the
    script in one of three ways, decided per crash by the fault stream: the whole process group is killed (nothing of
    the script runs any more), the launcher exits non-zero (the script sees CalledProcessError and its own handlers,
    if any, run -- under the same proxies, so they are observed and can be interrupted in turn), or the operator
    presses Ctrl-C (KeyboardInterrupt)."""

    def __init__(self, sim):
        self._sim = sim

    def __getattr__(self, name):
        return getattr(_subprocess, name)

    def check_call(self, cmd, cwd=None, **kw):
        sim = self._sim
        sim.n_launches += 1
        if sim.launch_cap is not None and sim.n_launches > sim.launch_cap:
            raise SimLivelock(f"{sim.n_launches} workflow launches")
        sim.tick("launch")
        try:
            run_workflow(sim, cmd)
        except SimCrash:
            mode = sim.delivery[(sim.crashes_fired - 1) % len(sim.delivery)] if sim.delivery else "kill"
            sim.stats.fault("crash-delivery." + mode)
            sim.log.ev("delivery", mode)
            if mode == "nonzero-exit":
                raise _subprocess.CalledProcessError(1, cmd)
            if mode == "ctrl-c":
                raise KeyboardInterrupt()
            raise
        return 0

    def run(self, cmd, *a, **kw):
        self.check_call(cmd)
        return _subprocess.CompletedProcess(cmd, 0)

    call = check_call


# ================================================================== workflow stub


def _sha(path):
    with open(path, "rb") as f:
        return hashlib.sha256(f.read()).hexdigest()[:16]


def _jread(path):
    with open(path) as f:
        return json.load(f)


def _jwrite(path, obj):
    with open(path, "w") as f:
        json.dump(obj, f, sort_keys=True)


def parse_cmd(cmd):
    assert cmd[0] == "nextflow" and cmd[1] == "run", cmd
    params = {}
    i = 3
    while i < len(cmd):
        a = cmd[i]
        if a.startswith("--excludes="):
            params["excludes"] = [x for x in a.split("=", 1)[1].split(",") if x != ""]
            i += 1
        elif a.startswith("--"):
            params[a[2:]] = cmd[i + 1]
            i += 2
        elif a.startswith("-"):
            params[a] = cmd[i + 1]
            i += 2
        else:
            i += 1
    return params


class Body:
    """MODEL process bodies."""

    def __init__(self, sim):
        self.sim = sim

    def screen_digest(self, path):
        return _sha(path)

    def prepare(self, screen, out_train, out_test):
        s = _jread(screen)
        plates = {k: False for k in s["plates"]}
        first = sorted(plates, key=int)[0]
        plates[first] = True
        _jwrite(out_train, dict(kind="screen", plates=plates, origin=_sha(screen)))
        _jwrite(out_test, dict(kind="screen", plates={k: True for k in plates}, test=True, origin=_sha(screen)))

    def train(self, screen, i, n, out):
        _jwrite(out, dict(kind="thetas", chain=i, n_chains=n, screen=_sha(screen)))

    def evaluate(self, screen, thetas, out):
        _jwrite(out, dict(kind="eval", screen=_sha(screen), thetas=[_sha(t) for t in thetas]))

    def distance(self, screen, thetas, i, n, out):
        _jwrite(out, dict(kind="dist", chunk=i, n=n, screen=_sha(screen), thetas=sorted(_sha(t) for t in thetas)))

    def scores(self, screen, thetas, dists, excludes, i, n, out):
        _jwrite(out, dict(kind="scores", chunk=i, n=n, screen=_sha(screen), thetas=sorted(_sha(t) for t in thetas),
                          dist=sorted(_sha(d) for d in dists), excludes=sorted(excludes)))

    def select(self, screen, excludes, scores, out):
        s = _jread(screen)
        key = [_sha(screen)] + sorted(_sha(x) for x in scores) + sorted(excludes)
        cands = [p for p, ob in s["plates"].items() if not ob and p not in set(excludes)]
        if not cands:
            sel = "-1"
        else:
            sel = min(cands, key=lambda p: h64("select", key, p))
        with open(out, "w") as f:
            f.write(sel)
        return sel

    def reveal(self, screen, plate, out):
        s = _jread(screen)
        plates = dict(s["plates"])
        if plate in plates:
            plates[plate] = True
        _jwrite(out, dict(kind="screen", plates=plates, origin=s.get("origin"), revealed_from=_sha(screen)))

    def metadata(self, screen, out):
        s = _jread(screen)
        n_un = sum(1 for v in s["plates"].values() if not v)
        with open(out, "w") as f:
            json.dump(dict(n_unique_samples=1, n_unique_treatments=1, size=len(s["plates"]), n_plates=len(s["plates"]),
                           n_unobserved_plates=n_un, n_observed_plates=len(s["plates"]) - n_un), f, indent=4)


class RealBody(Body):
    """REAL process bodies: batchie's CLI mains on real HDF5 files (tiny sampler settings)."""

    def _ent(self, *k):
        return h64("real", *k)

    def prepare(self, screen, out_train, out_test):
        pipe.p_prepare(screen, out_train, out_test, args=["--plate-generator", "PlatePermutationPlateGenerator",
                                                          "--holdout-fraction", "0.2"], seed=7, entropy=self._ent("prep", _sha(screen)))

    def train(self, screen, i, n, out):
        pipe.p_train(screen, out, model="SparseDrugCombo", model_params={"n_embedding_dimensions": 2}, n_chains=n, chain_index=i,
                     n_samples=2, n_burnin=1, thin=1, seed=12, entropy=self._ent("train", pipe.screen_file_digest(screen), i))

    def evaluate(self, screen, thetas, out):
        pipe.p_evaluate(screen, thetas, out, entropy=self._ent("eval"))

    def distance(self, screen, thetas, i, n, out):
        pipe.p_distance(screen, sorted(thetas), out, n_chunks=n, chunk_index=i, entropy=self._ent("dist", i))

    def scores(self, screen, thetas, dists, excludes, i, n, out):
        pipe.p_scores(screen, sorted(thetas), sorted(dists), out, n_chunks=n, chunk_index=i, scorer="GaussianDBALScorer",
                      batch=[int(x) for x in excludes], seed=12, entropy=self._ent("score", i))

    def select(self, screen, excludes, scores, out):
        sel = pipe.p_select(screen, sorted(scores), out, batch=[int(x) for x in excludes], seed=12, entropy=self._ent("select"))
        return str(sel)

    def reveal(self, screen, plate, out):
        pipe.p_reveal(screen, out, [int(plate)], entropy=self._ent("reveal"))

    def metadata(self, screen, out):
        pipe.p_metadata(screen, out, entropy=self._ent("meta"))

    def screen_digest(self, path):
        return pipe.screen_file_digest(path)


def _artefact_digest(sim, path):
    """Logical digest of an artefact (file bytes for MODEL blobs, loaded content for REAL HDF5)."""
    if not sim.real:
        return _sha(path)
    base = os.path.basename(path)
    try:
        if base.startswith("thetas"):
            return pipe.holder_file_digest(path)
        if base.startswith("distance_matrix_chunk"):
            return pipe.dist_file_digest(path)
        if base.endswith("screen.h5") or base.endswith(".h5"):
            return pipe.screen_file_digest(path)
    except Exception as e:
        return f"unreadable:{type(e).__name__}"
    return _sha(path)


def run_workflow(sim, cmd):
    p = parse_cmd(cmd)
    mode = p["mode"]
    outdir = os.path.abspath(p["outdir"])
    name = p.get("name", "batchie")
    n_chains = int(p.get("n_chains", 1))
    n_chunks = int(p.get("n_chunks", 1))
    body = RealBody(sim) if sim.real else Body(sim)
    rel = sim.rel(outdir)
    attempt = sim.launch_count.get(rel, 0)
    sim.launch_count[rel] = attempt + 1
    rnd = random.Random(h64("wf-schedule", sim.plan["seed"], rel, attempt))
    sim.work_n += 1
    work = os.path.join(sim.root, "_work", f"{sim.work_n:04d}")
    os.makedirs(os.path.join(work, name), exist_ok=True)
    pub = os.path.join(outdir, name)

    def W(f):
        return os.path.join(work, name, f)

    def expand(pattern):
        res = sorted(_glob.glob(pattern))
        rnd.shuffle(res)
        return res

    # ---- inputs and their provenance
    excludes = list(p.get("excludes", []))
    inputs = dict(mode=mode, initialize=p.get("initialize"), excludes=sorted(excludes))
    if mode == "retrospective" and p.get("initialize") == "true":
        in_screen = p["screen"]
        inputs["screen"] = _artefact_digest(sim, in_screen)
    elif mode == "retrospective":
        in_screen = p["training_screen"]
        inputs["screen"] = _artefact_digest(sim, in_screen)
        inputs["test_screen"] = _artefact_digest(sim, p["test_screen"])
    else:
        in_screen = p["screen"]
        inputs["screen"] = _artefact_digest(sim, in_screen)
    thetas_in = dists_in = None
    if mode == "next_plate":
        thetas_in, dists_in = expand(p["thetas"]), expand(p["distance_matrix"])
        if not thetas_in or not dists_in:
            raise RuntimeError("nextflow: input file check failed (no thetas / distance chunks)")
        inputs["thetas"] = sorted(_artefact_digest(sim, t) for t in thetas_in)
        inputs["dist"] = sorted(_artefact_digest(sim, d) for d in dists_in)
        inputs["reveal"] = p.get("reveal")
    step = _step_of(rel)
    sim.history.append(("launch", step, inputs))
    sim.log.ev("launch", step, mode, inputs)
    sim.stats.steps += 1

    state = dict(selection=None, out_screen=None)
    arrival = {}
    procs = {}  # name -> (deps, fn returning list of output files (relative names))

    def add(pname, deps, fn):
        procs[pname] = (set(deps), fn)

    train_screen = [None]
    if mode == "retrospective" and p.get("initialize") == "true":
        def f_prepare():
            body.prepare(in_screen, W("training.screen.h5"), W("test.screen.h5"))
            train_screen[0] = W("training.screen.h5")
            return ["training.screen.h5", "test.screen.h5"]
        add("PREPARE", [], f_prepare)
        prep_dep = ["PREPARE"]
        eval_screen = lambda: W("training.screen.h5")  # noqa: E731  (the workflow evaluates on it[1])
    else:
        train_screen[0] = in_screen
        prep_dep = []
        eval_screen = lambda: in_screen  # noqa: E731
    if mode in ("retrospective", "prospective"):
        for i in range(n_chains):
            def f_train(i=i):
                body.train(train_screen[0], i, n_chains, W(f"thetas_{i}.h5"))
                return [f"thetas_{i}.h5"]
            add(f"TRAIN_{i}", prep_dep, f_train)
        trains = [f"TRAIN_{i}" for i in range(n_chains)]

        def thetas_now():
            # groupTuple(): files in the order the chain workers completed
            return [W(f"thetas_{i}.h5") for i in sorted(range(n_chains), key=lambda i: arrival.get(f"TRAIN_{i}", 0))]

        def f_eval():
            body.evaluate(eval_screen(), thetas_now(), W("model_evaluation.h5"))
            return ["model_evaluation.h5"]
        add("EVALUATE", trains, f_eval)

        def f_analyze():
            os.makedirs(W("model_evaluation_analysis"), exist_ok=True)
            with open(W("model_evaluation_analysis/done"), "w") as f:
                f.write("stub")
            return ["model_evaluation_analysis"]
        add("ANALYZE", trains + ["EVALUATE"], f_analyze)
        for j in range(n_chunks):
            def f_dist(j=j):
                body.distance(train_screen[0], thetas_now(), j, n_chunks, W(f"distance_matrix_chunk_{j}.h5"))
                return [f"distance_matrix_chunk_{j}.h5"]
            add(f"DIST_{j}", trains, f_dist)
        dists = [f"DIST_{j}" for j in range(n_chunks)]
        for j in range(n_chunks):
            def f_score(j=j):
                body.scores(train_screen[0], thetas_now(), [W(f"distance_matrix_chunk_{k}.h5") for k in range(n_chunks)], [], j,
                            n_chunks, W(f"score_chunk_{j}.h5"))
                return [f"score_chunk_{j}.h5"]
            add(f"SCORE_{j}", trains + dists, f_score)
        scores = [f"SCORE_{j}" for j in range(n_chunks)]

        def f_select():
            state["selection"] = body.select(train_screen[0], [], [W(f"score_chunk_{k}.h5") for k in range(n_chunks)], W("selected_plate"))
            return ["selected_plate"]
        add("SELECT", scores, f_select)
        if mode == "retrospective":
            def f_reveal():
                body.reveal(train_screen[0], state["selection"], W("advanced_screen.h5"))
                state["out_screen"] = W("advanced_screen.h5")
                return ["advanced_screen.h5"]
            add("REVEAL", ["SELECT"], f_reveal)

            def f_meta():
                body.metadata(W("advanced_screen.h5"), W("screen_metadata.json"))
                return ["screen_metadata.json"]
            add("EXTRACT", ["REVEAL"], f_meta)
        else:
            def f_meta():
                body.metadata(in_screen, W("screen_metadata.json"))
                return ["screen_metadata.json"]
            add("EXTRACT", [], f_meta)  # prospective/main.nf: no upstream at all
    else:  # next_plate
        for j in range(n_chunks):
            def f_score(j=j):
                body.scores(in_screen, thetas_in, dists_in, excludes, j, n_chunks, W(f"score_chunk_{j}.h5"))
                return [f"score_chunk_{j}.h5"]
            add(f"SCORE_{j}", [], f_score)
        scores = [f"SCORE_{j}" for j in range(n_chunks)]

        def f_select():
            state["selection"] = body.select(in_screen, excludes, [W(f"score_chunk_{k}.h5") for k in range(n_chunks)], W("selected_plate"))
            return ["selected_plate"]
        add("SELECT", scores, f_select)
        if str(p.get("reveal")).lower() == "true":
            def f_reveal():
                body.reveal(in_screen, state["selection"], W("advanced_screen.h5"))
                state["out_screen"] = W("advanced_screen.h5")
                return ["advanced_screen.h5"]
            add("REVEAL", ["SELECT"], f_reveal)

            def f_meta():
                body.metadata(W("advanced_screen.h5"), W("screen_metadata.json"))
                return ["screen_metadata.json"]
            add("EXTRACT", ["REVEAL"], f_meta)
        else:
            def f_meta():
                body.metadata(in_screen, W("screen_metadata.json"))
                return ["screen_metadata.json"]
            add("EXTRACT", [], f_meta)

    needs_screen = mode == "retrospective" or (mode == "next_plate" and str(p.get("reveal")).lower() == "true")

    def on_publish():
        """A step is *recorded* as soon as the marker, the selection and (where the step produces one)
        the advanced screen are published -- that is everything the script and the property speak
        about; evaluation artefacts published later are not part of it."""
        if rel in sim.completed:
            return
        have = lambda f: os.path.exists(os.path.join(pub, f))  # noqa: E731
        if not (have("screen_metadata.json") and have("selected_plate") and (have("advanced_screen.h5") or not needs_screen)):
            return
        with open(os.path.join(pub, "selected_plate")) as fh:
            sel = fh.read().strip()
        out_d = _artefact_digest(sim, os.path.join(pub, "advanced_screen.h5")) if have("advanced_screen.h5") else None
        rec = dict(step=step, inputs=inputs, selection=sel, out_screen=out_d,
                   thetas=sorted(_artefact_digest(sim, t) for t in _glob.glob(os.path.join(pub, "thetas*.h5"))),
                   dist=sorted(_artefact_digest(sim, t) for t in _glob.glob(os.path.join(pub, "distance_matrix_chunk*.h5"))))
        sim.completed[rel] = rec
        sim.history.append(("complete", step, rec))
        sim.log.ev("complete", step, sel, out_d)

    # ---- seeded topological execution with per-file publication
    done = []
    n_done = 0
    while len(done) < len(procs):
        ready = sorted(n for n, (deps, _) in procs.items() if n not in done and deps <= set(done))
        pick = rnd.choice(ready)
        outs = procs[pick][1]()
        n_done += 1
        if pick.startswith("TRAIN_"):
            arrival[pick] = n_done
        done.append(pick)
        sim.tick(f"proc-done:{pick.split('_')[0]}")
        for f in outs:
            sim.pending_publish.append((pick, f, W(f), os.path.join(pub, f)))
        _drain(sim, rnd, final=False, on_publish=on_publish)
    _drain(sim, rnd, final=True, on_publish=on_publish)
    if rel not in sim.completed:
        on_publish()
    sim.tick("workflow-exit")


def _drain(sim, rnd, final, on_publish=None):
    """publishDir: copy finished outputs into the output directory, one file at a time."""
    q = sim.pending_publish
    while q:
        if sim.reorder and not final and rnd.random() < 0.5:
            return  # asynchronous publication: leave the rest for later
        k = rnd.randrange(len(q)) if sim.reorder else 0
        pick, f, src, dst = q.pop(k)
        sim.tick(f"publish:{f.split('_')[0].split('.')[0]}")
        os.makedirs(os.path.dirname(dst), exist_ok=True)
        if os.path.isdir(src):
            if os.path.exists(dst):
                _shutil.rmtree(dst)
            _shutil.copytree(src, dst)
        else:
            tmp = dst + ".part"
            _shutil.copyfile(src, tmp)
            os.replace(tmp, dst)  # per-file atomic publication
        if on_publish is not None:
            on_publish()


def _step_of(rel_outdir):
    m = re.search(r"iter_(\d+)[/\\]plate_(\d+)", rel_outdir)
    return (int(m.group(1)), int(m.group(2))) if m else None


# ================================================================= script driver


_LOAD_N = [0]


def load_script():
    path = os.path.join(repo_dir(), "nextflow", "scripts", "batchie.py")
    _LOAD_N[0] += 1
    name = f"verif_orchestrator_{os.getpid()}_{_LOAD_N[0]}"
    spec = importlib.util.spec_from_file_location(name, path)
    mod = importlib.util.module_from_spec(spec)
    spec.loader.exec_module(mod)
    return mod


MARKS = (("M", "screen_metadata.json"), ("S", "selected_plate"), ("A", "advanced_screen.h5"), ("T", "thetas*.h5"),
         ("D", "distance_matrix_chunk*.h5"), ("C", "score_chunk*.h5"), ("R", "training.screen.h5"))


def tree_shape(root):
    """Abstract shape of the output tree: per iteration, per step dir, which kinds of files exist
    (M marker, S selection, A advanced screen, T thetas, D distances, C scores, R training screen)."""
    shape = []
    out = os.path.join(root, "out")
    for it in sorted(_glob.glob(os.path.join(out, "iter_*")), key=lambda x: int(x.rsplit("_", 1)[1])):
        row = []
        for pl in sorted(_glob.glob(os.path.join(it, "plate_*")), key=lambda x: int(x.rsplit("_", 1)[1])):
            row.append("".join(c if _glob.glob(os.path.join(pl, "*", pat)) else "-" for c, pat in MARKS))
        shape.append(tuple(row))
    return tuple(shape)


def anomaly_class(shape):
    """Name the first abnormal feature of a tree shape (used in signatures and coverage keys)."""
    if any(len(row) == 0 for row in shape):
        return "empty-iter-dir"
    for row in shape:
        for flags in row:
            if flags[0] == "M" and flags[1] != "S":
                return "marker-without-selection"
    for row in shape:
        for flags in row:
            if flags[0] != "M":
                return "incomplete-step-dir" if flags.strip("-") else "empty-step-dir"
    return "clean"


def make_input_screen(sim, plan, path):
    if not sim.real:
        plates = {str(i): (plan["mode"] == "retrospective" or i < plan["n_observed"]) for i in range(plan["n_plates"])}
        _jwrite(path, dict(kind="screen", plates=plates, input=True))
        return
    w = random.Random(plan["seed"])
    spec = pipe.gen_pipeline_screen(w, n_plates=plan["n_plates"], rows_per_plate=3, n_samples=2, n_names=3,
                                    observed_plates=plan["n_plates"] if plan["mode"] == "retrospective" else plan["n_observed"],
                                    allow_controls=False)
    gen.make_screen(spec).save_h5(path)


def drive(sim, plan, max_restarts, sessions=1):
    """Run main() until it stops by itself; restart after crashes; follow deletion advice."""
    out = os.path.join(sim.root, "out")
    screen = os.path.join(sim.root, "input", "demo_screen.h5")
    argv = ["batchie.py", "--mode", plan["mode"], "--outdir", out, "--screen", screen, "--batch-size", str(plan["batch_size"]),
            "--n_chains", str(plan["n_chains"]), "--n_chunks", str(plan["n_chunks"])]
    restarts = 0
    sessions_done = 0
    anomalies = []
    stuck = None
    while True:
        mod = load_script()
        mod.os = OsProxy(sim)
        mod.shutil = ShutilProxy(sim)
        mod.glob = GlobProxy(sim, random.Random(h64("glob", plan["seed"], restarts)))
        mod.subprocess = SubprocessProxy(sim)
        old = sys.argv
        sys.argv = argv
        try:
            mod.main()
            sim.history.append(("exit", restarts))
            sim.log.ev("exit", restarts)
            sessions_done += 1
            if sessions_done >= sessions:
                break
            continue
        except SimLivelock as e:
            stuck = ("livelock", str(e))
            break
        except (SimCrash, _subprocess.CalledProcessError, KeyboardInterrupt):
            # (the last two: the interruption was delivered to the script, whose handlers -- if any -- have run; it then died)
            shape = tree_shape(sim.root)
            anomalies.append(anomaly_class(shape))
            sim.log.ev("tree", shape)
            sim.stats.probe("tree:" + anomalies[-1])
        except RuntimeError as e:
            msg = str(e)
            m = re.search(r"Consider deleting this directory to continue simulation: (.+)$", msg)
            if not m:
                stuck = ("RuntimeError", msg[:160])
                break
            target = m.group(1).strip()
            sim.history.append(("operator-delete", sim.rel(target)))
            sim.log.ev("operator-delete", sim.rel(target))
            sim.stats.fault("operator.delete-named-dir")
            _shutil.rmtree(target, ignore_errors=True)
        except Exception as e:
            stuck = (type(e).__name__, str(e)[:160])
            break
        finally:
            sys.argv = old
        restarts += 1
        if restarts > max_restarts:
            stuck = ("restart-budget", f"more than {max_restarts} restarts")
            break
    return dict(restarts=restarts, anomalies=anomalies, stuck=stuck)


# ======================================================================= plans


def gen_plan(prop, run_seed, tier):
    F = Forks(run_seed)
    w, s, f = F.fork("workload"), F.fork("schedule"), F.fork("faults")
    mode = w.choice(["retrospective", "retrospective", "prospective"])
    n_plates = w.randint(2, 7) if w.random() < 0.82 else w.randint(11, 13)  # >= 11 steps: iter_10 sorts before iter_2 as a string
    batch_size = w.randint(1, 4)
    if w.random() < 0.05:  # two-digit iteration indices with a batch size above one
        batch_size, n_plates = w.choice([2, 2, 3]), w.randint(24, 30)
    plan = dict(engine="orchsim", prop=prop, mode=mode, batch_size=batch_size, n_plates=n_plates,
                n_observed=w.randint(1, max(1, n_plates - 2)), n_chains=w.randint(1, 2), n_chunks=w.randint(1, 3),
                seed=s.randrange(2**31), real=(f.random() < (0.01 if tier == "quick" else 0.02)),
                n_crashes=f.choice([1, 1, 2] if tier == "quick" else [1, 2, 2, 3]), crash_u=[f.random() for _ in range(3)],
                crash_bias=f.choice(["uniform", "uniform", "after-step", "inside-makedirs", "inside-rmtree", "between-publish"]),
                crash_delivery=[f.choice(["kill", "nonzero-exit", "ctrl-c"]) for _ in range(3)],
                reorder=(tier == "thorough" and f.random() < 0.25), enumerate_single=(tier == "thorough" and f.random() < 0.05),
                dyn_rmtree=(f.randint(1, 8) if f.random() < 0.3 else 0))
    return normalise(plan)


def normalise(plan):
    """Workload preconditions (kept by the reducers too)."""
    if plan.get("real"):
        plan["batch_size"] = min(plan["batch_size"], 2)
        plan["n_plates"] = min(plan["n_plates"], 4)
        plan["n_chains"], plan["n_chunks"] = 2, min(plan["n_chunks"], 2)
    plan["n_plates"] = max(plan["n_plates"], 2)
    if plan.get("enumerate_single") and (plan.get("real") or plan["n_plates"] > 5):
        plan["enumerate_single"] = False  # exhaustive single-crash enumeration only for small MODEL configurations
    if plan["mode"] == "prospective":
        # a batch can only be filled from unobserved plates (the script has no notion of running out)
        plan["n_plates"] = max(plan["n_plates"], plan["batch_size"] + 1)
        plan["n_observed"] = max(1, min(plan["n_observed"], plan["n_plates"] - plan["batch_size"]))
    if os.environ.get("VERIF_PUBLISH_REORDER") != "1":
        plan["reorder"] = False  # see DESIGN 6.19: asynchronous publication order is not part of the fault model
    if plan["mode"] == "retrospective":
        plan["n_observed"] = max(1, min(plan["n_observed"], plan["n_plates"]))
    return plan


def _choose_crashes(plan, census):
    n = len(census)
    if n == 0:
        return []
    bias = plan["crash_bias"]
    classes = dict(**{"after-step": ("workflow-exit",), "inside-makedirs": ("mkdir",), "inside-rmtree": ("rmtree-entry",),
                      "between-publish": ("publish",)})
    ticks = []
    lo = 1
    for k in range(plan["n_crashes"]):
        u = plan["crash_u"][k]
        if k == 0:
            cands = list(range(1, n + 1))
            if bias in classes:
                pref = [i + 1 for i, kind in enumerate(census) if kind.split(":")[0] in classes[bias]]
                # crash right *after* the preferred site fired (i.e. at the next tick) or at it
                pref = sorted(set(pref) | {min(n, x + 1) for x in pref})
                cands = pref or cands
            t = cands[int(u * len(cands)) % len(cands)]
        else:
            t = lo + 1 + int(u * n)
        ticks.append(t)
        lo = t
    return ticks


# =================================================================== execution


def execute(prop, plan):
    launch.quiet()
    log, stats, viol = EventLog(), RunStats(), []

    def violation(oid, trigger, msg):
        sig = f"{oid}/{trigger}"
        log.ev("violation", sig)
        if not any(v["signature"] == sig for v in viol):
            viol.append(Violation(prop, oid, sig, msg))

    with Scratch("orch") as scratch:
        # ---- census / reference run (no faults, same seed)
        ref_root = scratch.dir("ref")
        os.makedirs(os.path.join(ref_root, "input"))
        ref = Sim(ref_root, plan, EventLog(), RunStats(), crash_ticks=None, reorder=False, real=plan["real"])
        make_input_screen(ref, plan, os.path.join(ref_root, "input", "demo_screen.h5"))
        sessions = N_SESSIONS_PROSPECTIVE if plan["mode"] == "prospective" else 1
        try:
            ref.launch_cap = 200
            r0 = drive(ref, plan, max_restarts=3, sessions=sessions)
        except pipe.HarnessError:
            raise
        if r0["stuck"] or r0["restarts"]:
            violation("C19.fault-free-run-failed", f"{plan['mode']}:{(r0['stuck'] or ['restart'])[0]}",
                      f"the orchestration did not run to completion without any fault: {r0}")
            return dict(digest=log.digest(), violations=viol, stats=stats.to_dict(), log_head=log.head)
        reference = {}
        for ev in ref.history:
            if ev[0] == "complete":
                reference[ev[1]] = ev[2]
        if not _model_check(plan, ref, reference, f"{plan['mode']}:fault-free", violation, stats):
            return dict(digest=log.digest(), violations=viol, stats=stats.to_dict(), log_head=log.head)
        ref_order = [ev[1] for ev in ref.history if ev[0] == "complete"]
        census = list(ref.census)
        # census of the first session only is where crashes are placed for prospective mode
        log.ev("reference", [(k, v["selection"]) for k, v in sorted(reference.items())], len(census))
        if plan.get("enumerate_single"):
            crash_sets = [[t] for t in range(1, len(census) + 1)]
            stats.probe("all_single_crash_sites_enumerated")
        else:
            crash_sets = [_choose_crashes(plan, census)]
        for ci, ticks in enumerate(crash_sets):
            root = scratch.dir(f"run{ci}")
            os.makedirs(os.path.join(root, "input"))
            sim = Sim(root, plan, log, stats, crash_ticks=ticks, reorder=plan.get("reorder", False), real=plan["real"])
            make_input_screen(sim, plan, os.path.join(root, "input", "demo_screen.h5"))
            budget = len(ref_order) + len(ticks) + 3 + 3 * (len(ticks) + 1)  # + advised deletions
            sim.launch_cap = 2 * len(ref_order) + 2 * len(ticks) + 6
            sim.dyn_rmtree = plan.get("dyn_rmtree", 0)
            sim.delivery = list(plan.get("crash_delivery", []))
            res = drive(sim, plan, max_restarts=budget, sessions=1)
            _judge(plan, sim, res, reference, ref_order, census, ticks, stats, violation)
            if viol:
                break
            _shutil.rmtree(root, ignore_errors=True)
    return dict(digest=log.digest(), violations=viol, stats=stats.to_dict(), log_head=log.head)


def _judge(plan, sim, res, reference, ref_order, census, ticks, stats, violation):
    mode = plan["mode"]
    bclass = "batch>1" if plan["batch_size"] > 1 else "batch=1"
    anomalies = [a for a in res["anomalies"] if a != "clean"]
    state = anomalies[0] if anomalies else "clean-tree"
    tag = f"{mode}:{state}:{bclass}" + (":publish.reorder" if sim.reorder else "")
    stats.oracle_evals += 1
    fired = [ev for ev in sim.history if ev[0] == "crash"]
    # (3) completed steps are never deleted
    completed_now = set()
    for ev in sim.history:
        if ev[0] == "complete":
            completed_now.add(os.path.normpath(os.path.join("out", f"iter_{ev[1][0]}", f"plate_{ev[1][1]}")))
        elif ev[0] in ("rmtree", "operator-delete"):
            tgt = os.path.normpath(ev[1])
            hit = [c for c in completed_now if c == tgt or c.startswith(tgt + os.sep)]
            if hit:
                who = "the script removed" if ev[0] == "rmtree" else "the script told the operator to delete"
                violation("C19.completed-step-deleted", tag,
                          f"{who} {tgt}, which holds the completed step(s) {sorted(hit)} (mode {mode}, batch size {plan['batch_size']}, "
                          f"crashes at ticks {ticks}: {[f[2] for f in fired]})")
                return
            completed_now -= set(hit)
    # (1) every completed step matches the reference step of the same index
    seen = {}
    for ev in sim.history:
        if ev[0] != "complete":
            continue
        step, rec = ev[1], ev[2]
        stats.oracle_evals += 1
        if step in seen:
            violation("C19.step-executed-twice", tag, f"step {step} ran to completion twice")
            return
        seen[step] = rec
        want = reference.get(step)
        if want is None:
            violation("C19.unknown-step", tag, f"step {step} was executed but an uninterrupted execution never runs it (it runs {ref_order})")
            return
        if rec["inputs"] != want["inputs"]:
            diff = {k: (rec["inputs"].get(k), want["inputs"].get(k)) for k in set(rec["inputs"]) | set(want["inputs"])
                    if rec["inputs"].get(k) != want["inputs"].get(k)}
            violation("C19.step-inputs-differ", tag,
                      f"step {step} received other inputs than in an uninterrupted execution: {diff} (got, reference); crashes {[f[2] for f in fired]}")
            return
        if rec["selection"] != want["selection"] or rec["out_screen"] != want["out_screen"]:
            violation("C19.step-selection-differs", tag,
                      f"step {step} recorded selection {rec['selection']} (reference {want['selection']})")
            return
    # (4) + reference model of the orchestration: absolute expectations on every completed step
    if not _model_check(plan, sim, seen, tag, violation, stats):
        return
    # stuck / liveness
    if res["stuck"]:
        violation("C19.stuck", f"{tag}:{res['stuck'][0]}",
                  f"after the crashes {[f[2] for f in fired]} a restart died with {res['stuck']} naming no directory to delete")
        return
    # (2) order: the completed steps form the reference sequence without gaps
    order = [ev[1] for ev in sim.history if ev[0] == "complete"]
    if mode == "retrospective":
        if order != ref_order:
            violation("C19.step-sequence", tag, f"completed steps {order}, an uninterrupted execution completes {ref_order}")
            return
    else:
        if order != ref_order[: len(order)]:
            violation("C19.step-sequence", tag, f"completed steps {order} are not a prefix of the uninterrupted sequence {ref_order}")
            return
        first_session = [s for s in ref_order if s[0] == 0]
        if len(order) < len(first_session):
            violation("C19.step-sequence", tag + ":short", f"the run stopped by itself after {order}; one uninterrupted session completes {first_session}")
            return
    # final tree: every completed step still has its marker and selection
    out = os.path.join(sim.root, "out")
    for step in order:
        d = os.path.join(out, f"iter_{step[0]}", f"plate_{step[1]}")
        if not _glob.glob(os.path.join(d, "*", "screen_metadata.json")) or not _glob.glob(os.path.join(d, "*", "selected_plate")):
            violation("C19.completed-step-lost", tag, f"step {step} completed but its outputs are gone at the end")
            return
    if fired and order:
        kinds = tuple(sorted({f[2].split(":")[0] for f in fired}))
        stats.key(mode, plan["batch_size"], kinds, tuple(res["anomalies"]), sim.real, sim.reorder)
    if sim.real:
        stats.probe("real_bodies_run")
    stats.probe("crashes_fired", len(fired))


def _model_check(plan, sim, seen, tag, violation, stats):
    """Small executable reference model of the orchestration: which workflow a step must launch,
    from which screen, with which posterior samples / distances and which excludes."""
    mode = plan["mode"]
    input_digest = _artefact_digest(sim, os.path.join(sim.root, "input", "demo_screen.h5"))
    for step in sorted(seen):
        rec = seen[step]
        i, j = step
        inp = rec["inputs"]
        stats.oracle_evals += 1
        if j == 0:
            want_mode = "prospective" if mode == "prospective" else "retrospective"
            want_init = None if mode == "prospective" else ("true" if i == 0 else "false")
        else:
            want_mode, want_init = "next_plate", None
        if inp["mode"] != want_mode or inp.get("initialize") != want_init:
            violation("C19.wrong-workflow", tag, f"step {step} launched mode {inp['mode']} initialize={inp.get('initialize')}, expected {want_mode}/{want_init}")
            return False
        if mode == "prospective" or step == (0, 0):
            want_screen = input_digest
        else:
            pred = (i, j - 1) if j > 0 else max((s for s in seen if s[0] == i - 1), default=None)
            if pred is None or pred not in seen:
                continue  # predecessor not completed in this run's history: judged by the sequence oracle
            want_screen = seen[pred]["out_screen"]
        if inp["screen"] != want_screen:
            violation("C19.wrong-input-screen", tag,
                      f"step {step} was started from screen {inp['screen']}, its immediate predecessor's output is {want_screen}")
            return False
        if j > 0:
            first = seen.get((i, 0))
            if first is not None and (inp.get("thetas") != first["thetas"] or inp.get("dist") != first["dist"]):
                violation("C19.wrong-posterior-inputs", tag, f"step {step} did not receive the thetas / distance chunks of step {(i, 0)}")
                return False
            want_ex = sorted(seen[(i, k)]["selection"] for k in range(j) if (i, k) in seen)
            if len(want_ex) == j and sorted(inp["excludes"]) != want_ex:
                violation("C19.wrong-excludes", tag, f"step {step} excluded {inp['excludes']}, the batch so far selected {want_ex}")
                return False
        elif inp["excludes"]:
            violation("C19.wrong-excludes", tag, f"step {step} (first of its iteration) excluded {inp['excludes']}")
            return False
    return True


def reducers(prop, plan):
    for key, lo in (("n_crashes", 1), ("n_plates", 2), ("batch_size", 1), ("n_chains", 1), ("n_chunks", 1), ("dyn_rmtree", 0)):
        if plan[key] > lo:
            cand = json.loads(json.dumps(plan))
            cand[key] = plan[key] - 1
            yield normalise(cand)
    if plan.get("real"):
        cand = json.loads(json.dumps(plan))
        cand["real"] = False
        yield normalise(cand)
    if plan.get("reorder"):
        cand = json.loads(json.dumps(plan))
        cand["reorder"] = False
        yield normalise(cand)
