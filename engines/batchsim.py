"""batchsim: the batch loop -- repeated select_next_plate under the k-per-sample policy, where the
simulator decides which allowed plate scores best (the schedule), at function level and as
select_next_plate / reveal_plate processes with reload in between.  Serves C16."""
from __future__ import annotations

import json

import numpy as np

from engines import scoresim
from simkit import gen, launch, pipe
from simkit.kernel import EventLog, Forks, RunStats, Scratch, Violation, digest, sub_rng

SPEC = {
    "C16": dict(engine="batchsim", level="exploration", runs=dict(quick=700, thorough=6000), chunk=5,
                rule="per run: a screen with 1-6 samples x 0-6 single-sample plates (some observed), k in 1..4, and a batch grown by up to "
                     "3k selections from the empty batch; at every step the simulator chooses which allowed plate gets the best score "
                     "(ties included), so over seeds every allowed plate wins somewhere; thorough tier walks ALL winners of small screens "
                     "(every selection order consistent with the policy); function level and CLI-process level with reveal in between; "
                     "non-trivial if >= 2 selections happened and some sample was completed or left ineligible; distinct = distinct "
                     "(k, plates-per-sample multiset, path, winner sequence shape) tuples",
                real=["batchie.policies.k_per_sample.KPerSamplePlatePolicy (behind a recording wrapper)",
                      "batchie.scoring.main.select_next_plate, ChunkedScoresHolder; batchie.cli.select_next_plate.main and "
                      "batchie.cli.reveal_plate.main (process-level share); batchie.retrospective.reveal_plates"],
                stub=["scores are chosen by the simulator (the scorer is not part of this property)",
                      "launch order / reload between selections driven by the simulator"],
                assumptions=["batches are grown from the empty batch by the policy itself (the statement's 'selection orders consistent with the policy')"]),
}


def preload(prop):
    launch.preload_cli()
    import batchie.cli.reveal_plate  # noqa
    import batchie.cli.select_next_plate  # noqa

    scoresim._install()


def reset_state():
    scoresim.reset_state()


def gen_plan(prop, run_seed, tier):
    F = Forks(run_seed)
    w, s = F.fork("workload"), F.fork("schedule")
    plan = _gen_one(w, s, tier)
    if s.random() < 0.3 and not plan["multi"]:
        # the same policy object then serves a second, differently laid out screen
        second = _gen_one(w, s, tier)
        plan["second_screen"] = second["screen"] if not second["multi"] else None
    return plan


def _gen_one(w, s, tier):
    n_samples = w.randint(1, 6)
    bigmode = w.choice(["samples", "plates", "k"]) if w.random() < 0.05 else None
    if bigmode == "samples":
        n_samples = w.choice([17, 34])
    rows = []
    pno = 0
    counts = []
    for si in range(n_samples):
        n_pl = w.choice([0, 1, 2, 2, 3, 4, 5, 6])
        if bigmode in ("plates", "k") and si < 2:
            n_pl = w.choice([12, 34])
        counts.append(n_pl)
        for _ in range(n_pl):
            observed = w.random() < 0.2
            for _r in range(w.randint(1, 3)):
                a, b = w.sample(["d0", "d1", "d2", "d3"], 2)
                rows.append([f"s{si}", [[a, 1.0], [b, 1.0]], w.uniform(0.1, 0.9), f"p{pno:02d}", observed])
            pno += 1
    if not rows:
        rows.append(["s0", [["d0", 1.0], ["d1", 1.0]], 0.5, "p00", False])
    multi = w.random() < 0.08
    unobs_rows = [r for r in rows if not r[4]]
    multi = multi and bool(unobs_rows)
    if multi:
        r = w.choice(unobs_rows)  # the policy only ever sees batch plates and unobserved plates
        extra = [r[0] + "x", [["d0", 1.0], ["d1", 1.0]], 0.5, r[3], r[4]]  # a second sample on one plate ...
        where = w.choice(["end", "start", "middle", "middle"])  # ... anywhere among that plate's rows (a,a,b / b,a,a / a,b,a)
        same = [i for i, q in enumerate(rows) if q[3] == r[3]]
        if where == "end":
            rows.append(extra)
        elif where == "start":
            rows.insert(same[0], extra)
        else:
            if len(same) < 2:
                rows.append([r[0], [["d2", 1.0], ["d3", 1.0]], 0.4, r[3], r[4]])
                same = [i for i, q in enumerate(rows) if q[3] == r[3]]
            rows.insert(same[0] + 1, extra)
    spec_extra = w.random() < 0.3
    k = w.randint(1, 4)
    if bigmode == "k":
        k = w.choice([9, 12, 33])
    small = pno <= 6
    scr_spec = dict(control="", arity=2, rows=rows)
    if spec_extra:
        gen.add_space_extra(w, scr_spec)
    return dict(engine="batchsim", prop="C16", screen=scr_spec, k=k, max_len=3 * k,
                path=s.choice(["func", "func", "func-reveal", "cli", "cli-reveal"]), multi=multi, seed=s.randrange(2**31),
                enumerate=(tier == "thorough" and pno <= 5 and s.random() < 0.3), ties=s.random() < 0.3,
                score_regime=s.choice(["finite"] * 5 + ["neg-inf-winner", "inf-others", "huge", "all-inf-allowed", "all-inf-allowed"]))


def execute(prop, plan):
    launch.quiet()
    scoresim._install()
    log, stats, viol = EventLog(), RunStats(), []

    def violation(oid, trigger, msg):
        sig = f"{oid}/{trigger}"
        log.ev("violation", sig)
        if not any(v["signature"] == sig for v in viol):
            viol.append(Violation(prop, oid, sig, msg))

    with Scratch("batch") as scratch:
        _run(plan, scratch, log, stats, violation)
    return dict(digest=log.digest(), violations=viol, stats=stats.to_dict(), log_head=log.head)


def _plate_table(screen):
    """plate id -> (set of sample ids, observed)"""
    t = {}
    for p in screen.plates:
        t[int(p.plate_id)] = (set(int(x) for x in np.asarray(p.sample_ids).tolist()), bool(p.is_observed))
    return t


def _judge_state(k, table, batch, allowed, violation, stats, where):
    """Invariants of one (batch, remaining) state given the allowed list the policy returned."""
    stats.oracle_evals += 1
    sample_of = {p: next(iter(s)) for p, (s, _) in table.items()}
    remaining = [p for p, (_, ob) in table.items() if not ob and p not in batch]
    aset = set(allowed)
    if len(allowed) != len(aset) or not aset <= set(remaining):
        violation("C16.allowed-not-candidates", where, f"allowed {sorted(allowed)} is not a subset of unobserved non-batch plates {sorted(remaining)}")
        return False
    per_sample = {}
    for p in batch:
        per_sample[sample_of[p]] = per_sample.get(sample_of[p], 0) + 1
    incomplete = [s for s, n in per_sample.items() if n % k != 0 and n < k]
    over = [s for s, n in per_sample.items() if n > k]
    if over:
        violation("C16.more-than-k", where, f"samples {over} have more than k={k} plates in the batch {batch}")
        return False
    if len(incomplete) > 1:
        violation("C16.two-incomplete-samples", where, f"batch {batch} has several incomplete samples {incomplete} (k={k})")
        return False
    if incomplete:
        s = incomplete[0]
        want = {p for p in remaining if sample_of[p] == s}
        if aset != want or not want:
            violation("C16.in-progress-sample", where,
                      f"sample {s} has {per_sample[s]} of k={k} plates in the batch {batch}; allowed {sorted(aset)} but its remaining plates are {sorted(want)}")
            return False
    else:
        rem_count = {}
        for p in remaining:
            rem_count[sample_of[p]] = rem_count.get(sample_of[p], 0) + 1
        want = {p for p in remaining if sample_of[p] not in per_sample and rem_count[sample_of[p]] >= k}
        if aset != want:
            violation("C16.opening-a-sample", where,
                      f"batch {batch} (k={k}): allowed {sorted(aset)}, but the plates of unopened samples with >= k remaining plates are {sorted(want)}")
            return False
    if len(batch) % k == 0 and any(n not in (0, k) for n in per_sample.values()):
        violation("C16.batch-not-zero-or-k", where, f"batch {batch} of {len(batch)} plates gives samples {per_sample} (k={k})")
        return False
    return True


def _run(plan, scratch, log, stats, violation):
    RP = scoresim.REC["policy"]
    RP.config = dict(kind="kper", k=plan["k"], reuse=bool(plan["seed"] % 2) or bool(plan.get("second_screen")))
    ok = _run_screen(plan, plan["screen"], scratch, log, stats, violation)
    if ok and plan.get("second_screen"):
        stats.probe("policy_object_reused_on_second_screen")
        _run_screen(plan, plan["second_screen"], scratch, log, stats, violation)


def _run_screen(plan, spec, scratch, log, stats, violation):
    from batchie.data import Screen
    from batchie.retrospective import reveal_plates
    from batchie.scoring.main import ChunkedScoresHolder, select_next_plate

    RP = scoresim.REC["policy"]
    k = plan["k"]
    screen = gen.make_screen(spec)
    table = _plate_table(screen)
    rnd = sub_rng(plan["seed"], "batch")
    path = plan["path"]
    spath = scratch.file("screen.h5")
    screen.save_h5(spath)

    def one_selection(scr, scr_path, batch, winner_pref):
        """Ask for the next plate with scores that make `winner_pref(allowed)` the cheapest allowed plate.
        Two passes: first learn the allowed set (all scores equal), then score accordingly."""
        cands = [p for p, (_, ob) in _plate_table(scr).items() if not ob and p not in batch]

        def ask(score_of):
            RP.calls = []
            pipe.LEFTOVERS["on_rerun"] = [lambda: RP.calls.clear()]
            sh = ChunkedScoresHolder(len(cands))
            lay = list(cands)  # the stored order of the scores is whatever order the chunk files were combined in
            rnd.shuffle(lay)
            for p in lay:
                sh.add_score(p, score_of(p))
            if path.startswith("cli"):
                # the scores reach the selection process as one to three chunk files, in any order
                n_files = rnd.randint(1, min(3, max(1, len(lay))))
                parts = [lay[i::n_files] for i in range(n_files)]
                files = []
                for part in parts:
                    shp = ChunkedScoresHolder(len(part))
                    for p in part:
                        shp.add_score(p, score_of(p))
                    fpath = scratch.file("score_chunk.h5")
                    shp.save_h5(fpath)
                    files.append(fpath)
                rnd.shuffle(files)

                def select(fs):
                    return pipe.p_select(scr_path, fs, scratch.file("selected_plate"), policy="RecordingPolicy", batch=batch,
                                         seed=3, entropy=pipe.h64(plan["seed"], len(batch)))

                if len(files) >= 2 and rnd.random() < 0.25:
                    # fault input.torn-file: one of the chunk files was cut off by a pre-empted scoring job (its first bytes
                    # only).  Selection may fail -- scoring is then repeated and selection run again -- or cope; whatever
                    # plate it hands out is judged against the policy as always
                    victim = rnd.randrange(len(files))
                    torn = scratch.file("score_chunk_torn.h5")
                    with open(files[victim], "rb") as fh:
                        head = fh.read()
                    with open(torn, "wb") as fh:
                        fh.write(head[: max(8, len(head) // 3)])
                    stats.fault("input.torn-file")
                    try:
                        got = select(files[:victim] + [torn] + files[victim + 1:])
                        stats.probe("selection_coped_with_torn_input")
                    except pipe.HarnessError:
                        raise
                    except Exception:
                        stats.probe("selection_failed_on_torn_input")
                        RP.calls = []
                        got = select(files)
                else:
                    got = select(files)
            else:
                pl = select_next_plate(scores=sh, screen=scr, policy=RP(), batch_plate_ids=list(batch), rng=np.random.default_rng(1))
                got = -1 if pl is None else int(pl.plate_id)
            allowed = RP.calls[0][2] if RP.calls else None
            return got, allowed

        got, allowed = ask(lambda p: 1.0)
        if allowed is None:
            return got, None
        if not allowed:
            return got, allowed
        w = winner_pref(allowed)
        tie = plan["ties"]
        regime = plan.get("score_regime", "finite")
        inf = float("inf")
        if regime == "all-inf-allowed":
            # every allowed plate scores +inf (an overflowing scorer) while refused plates score lower: any allowed
            # plate may come back, a refused one may not
            got2, allowed2 = ask(lambda p: (inf if p in allowed else float(p % 3)))
            if allowed2 != allowed:
                violation("C16.policy-not-a-function-of-state", "filter_eligible_plates", f"same state, different allowed lists {allowed} / {allowed2}")
            if got2 not in allowed:
                violation("C16.refused-plate-selected", path, f"plate {got2} was returned although the policy allows only {allowed} (all of them score +inf)")
                return w, allowed
            return got2, allowed
        lo, hi = {"finite": (0.0, 1.0), "neg-inf-winner": (-inf, 1.0), "inf-others": (0.0, inf), "huge": (-1e308, 1e308)}[regime]
        got2, allowed2 = ask(lambda p: (lo if p == w else (lo if tie and p not in allowed else (hi + (p % 3) if hi not in (inf, 1e308) else hi))))
        if allowed2 != allowed:
            violation("C16.policy-not-a-function-of-state", "filter_eligible_plates", f"same state, different allowed lists {allowed} / {allowed2}")
        if got2 != w:
            violation("C16.winner-not-selected", path, f"plate {w} has the strictly lowest score among allowed {allowed} but {got2} was returned")
        return got2, allowed

    multi_now = any(len(smp) > 1 and not ob for smp, ob in table.values())
    if plan["multi"] and multi_now:
        stats.oracle_evals += 1
        try:
            one_selection(screen, spath, [], lambda a: a[0])
        except ValueError:
            stats.probe("multi_sample_plate_refused")
            return False
        except pipe.HarnessError:
            raise
        except Exception as e:
            violation("C16.multi-sample-crash", type(e).__name__, f"a multi-sample plate made the policy raise {e!r} (not ValueError)")
            return
        violation("C16.multi-sample-accepted", path, "the k-per-sample policy accepted an unobserved plate containing two samples")
        return
    if any(len(smp) > 1 for smp, _ in table.values()):
        return  # a multi-sample plate the policy never sees (observed, not in the batch): nothing to judge

    budget = [1500]  # states visited by the exhaustive walk (bounded: every state costs 2-3 selections)

    def walk(scr, scr_path, batch, depth, chooser, trace):
        """One selection order (chooser picks the winner) or, when chooser is None, all of them."""
        if depth >= plan["max_len"]:
            return True
        budget[0] -= 1
        if budget[0] < 0:
            stats.probe("exhaustive_walk_cut_by_budget")
            return True
        tab = _plate_table(scr)
        choices = None
        try:
            if chooser is not None:
                got, allowed = one_selection(scr, scr_path, batch, chooser)
            else:
                got, allowed = one_selection(scr, scr_path, batch, lambda a: a[0])
        except pipe.HarnessError:
            raise
        except Exception as e:
            violation("C16.selection-raised", type(e).__name__, f"selection with batch {batch} raised {e!r}")
            return False
        stats.steps += 1
        if allowed is None:
            violation("C16.policy-not-consulted", path, "select_next_plate did not consult the policy")
            return False
        log.ev("state", sorted(batch), sorted(allowed), got)
        jt = tab  # batch plates may be observed by now (retrospective flavour); they are excluded as batch members anyway
        if not _judge_state(k, jt, batch, allowed, violation, stats, path):
            return False
        if not allowed:
            if got != -1:
                violation("C16.selected-when-none-allowed", path, f"plate {got} returned with an empty allowed set")
                return False
            return True
        if chooser is None:
            choices = list(allowed)
        else:
            choices = [got]
        for w in choices:
            if chooser is None:
                # re-ask with w as the winner
                try:
                    got, _ = one_selection(scr, scr_path, batch, lambda a, w=w: w)
                except Exception as e:
                    violation("C16.selection-raised", type(e).__name__, f"selection with batch {batch} raised {e!r}")
                    return False
            nb = batch + [got]
            trace.append(got)
            nscr, npath = scr, scr_path
            if path.endswith("reveal"):
                if path.startswith("cli"):
                    npath = scratch.file("advanced_screen.h5")
                    pipe.p_reveal(scr_path, npath, [got], entropy=pipe.h64(plan["seed"], "rev", len(nb)))
                    nscr = Screen.load_h5(npath)
                else:
                    nscr = reveal_plates(scr, [got])
            if not walk(nscr, npath, nb, depth + 1, chooser, trace):
                return False
            if chooser is None:
                trace.pop()
        return True

    trace = []
    if plan["enumerate"] and path == "func":
        ok = walk(screen, spath, [], 0, None, trace)
        stats.probe("all_winner_orders_walked")
    else:
        ok = walk(screen, spath, [], 0, lambda a: rnd.choice(a), trace)
    if ok and len(trace) >= 2:
        pps = tuple(sorted(len([1 for p, (s, ob) in table.items() if next(iter(s)) == smp and not ob])
                           for smp in {next(iter(s)) for s, _ in table.values()}))
        stats.key(k, pps, path, len(trace), plan["enumerate"])
    if len(trace) >= k and k > 1:
        stats.probe("sample_completed_with_k_gt_1")
    return ok


def reducers(prop, plan):
    rows = plan["screen"]["rows"]
    if len(rows) > 1:
        for i in range(len(rows)):
            cand = json.loads(json.dumps(plan))
            del cand["screen"]["rows"][i]
            yield cand
    if plan["path"] != "func":
        cand = json.loads(json.dumps(plan))
        cand["path"] = "func"
        yield cand
