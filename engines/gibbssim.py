"""gibbssim: the sparse-combination Gibbs sampler stepped under the RNG seam.

Every random draw of the sampler is an observable event (block, index, kind, requested
parameters) served by the simulator; monitors compare the requested parameters with the full
conditional derived independently from the state at that instant: the design matrix of a Gaussian
block is obtained by *probing the repository's exported prediction function* (f is affine in one
block), prior precisions come from the sampler state, sufficient statistics are recomputed from
scratch -- nothing reads the sampler's cached fitted values.  Faults: numeric.cholesky (the
wrapped multivariate draw raises inside the block's own try/except), rng.extreme (tail draws that
drive precisions into both clipping bounds), entropy.reseed.  Serves C08.
"""
from __future__ import annotations

import json
import math

import numpy as np

from simkit import gen, launch, pipe
from simkit.kernel import EventLog, Forks, HarnessError, RunStats, Violation, digest, sub_rng

SPEC = {
    "C08": dict(engine="gibbssim", level="exploration", runs=dict(quick=1500, thorough=15000), chunk=10, run_timeout=900,
                rule="per run: one training set (combination and single-agent rows, treatments in first / second / both positions "
                     "across rows, samples and treatments without data, no self-pairs), embedding size 1-4, 1-5 sampler steps (thorough "
                     "up to 30) under the RNG seam, with numeric.cholesky and rng.extreme faults in a share of runs; every draw event is "
                     "judged against the reference conditional, every block against the cache / bounds invariants; non-trivial if >= 1 "
                     "data-driven vector block, >= 1 no-data index and >= 1 precision block were judged; distinct = distinct (D, #samples, "
                     "#treatments, #rows, steps, fault kinds fired, clip bounds hit) tuples",
                real=["batchie.models.sparse_combo.LegacySparseDrugComboImpl: every block update, mcmc_step, _reconstruct_Mu",
                      "SparseDrugCombo (add_observations, step, get_model_state), SparseDrugComboMCMCSample.predict_conditional_mean / "
                      "_variance (also used as the probe for design matrices)", "batchie.fast_mvn.sample_mvn_from_precision"],
                stub=["the random number generator: a recording proxy installed as the sampler's generator (and as numpy's module-level "
                      "random in the model module) serves every draw", "training data are simulator-chosen screens"],
                assumptions=["stated precondition: no row uses the same non-control treatment in both positions (no Gaussian conditional exists then)",
                             "default model options (fake intercept, multiplicative gamma process, local shrinkage)",
                             "the oracle checks the PARAMETERS of draws; that numpy turns parameters into correctly distributed numbers is "
                             "trusted, except for the multivariate draw which is checked algebraically through the seam",
                             "tolerance 1e-4 relative to the natural floating-point scale of each quantity (sampler arithmetic is float32); "
                             "the shipped '+1e-3 for stability' on gamma rates is accepted, nothing wider"]),
}

BLOCKS = ["_alpha_step", "_W0_step", "_V0_step", "_W_step", "_V2_step", "_V1_step",
          "_prec_W0_step", "_prec_V0_step", "_prec_obs_step", "_prec_V2_step", "_prec_V1_step", "_prec_W_step"]
TOL = 1e-4


def preload(prop):
    launch.quiet()
    import batchie.models.sparse_combo  # noqa


# ------------------------------------------------------------------------- workload


def gen_plan(prop, run_seed, tier):
    F = Forks(run_seed)
    w, s, f = F.fork("workload"), F.fork("schedule"), F.fork("faults")
    n_samples = w.randint(1, 4)
    n_names = w.randint(2, 5)
    n_doses = w.randint(1, 2)
    conds = [(f"d{i}", float(k + 1)) for i in range(n_names) for k in range(n_doses)]
    samples = [f"s{i}" for i in range(n_samples)]
    n_rows = w.choice([0, 1, 3, 6, 10, 20, 40, 60])
    if w.random() < 0.03:  # more rows than any plausible block size
        n_rows = w.choice([130, 260])
    rows = []
    for _ in range(n_rows):
        smp = w.choice(samples)
        a = w.choice(conds)
        u = w.random()
        if u < 0.25:
            tr = [[a[0], a[1]], ["", 0.0]] if w.random() < 0.5 else [["", 0.0], [a[0], a[1]]]
        elif u < 0.3:
            tr = [["", 0.0], ["", 0.0]]
        else:
            b = w.choice([c for c in conds if c != a]) if len(conds) > 1 else None
            tr = [[a[0], a[1]], [b[0], b[1]]] if b else [[a[0], a[1]], ["", 0.0]]
        v = w.uniform(0.02, 0.98) if w.random() > 0.1 else w.choice([0.0, 1.0, 0.005, 0.999])
        rows.append([smp, tr, v, "p0", True])
    # conditions / samples that exist in the experiment space but have no data
    extra_samples = [f"x{i}" for i in range(w.randint(0, 2))]
    extra_conds = [(f"e{i}", 1.0) for i in range(w.randint(0, 2))]
    return dict(engine="gibbssim", prop=prop, rows=rows, extra_samples=extra_samples, extra_conds=extra_conds,
                all_samples=samples, all_conds=conds, D=w.randint(1, 4), n_steps=s.randint(1, 5 if tier == "quick" else 30),
                seed=s.randrange(2**31), chol_rate=f.choice([0.0, 0.0, 0.1]), extreme_rate=f.choice([0.0, 0.0, 0.05, 0.3]),
                fault_seed=f.randrange(2**31),
                cuts=(sorted(w.sample(range(0, n_rows + 1), min(n_rows + 1, w.randint(1, 2)))) if w.random() < 0.35 and n_rows else []),
                cut_gap=w.randint(1, 2), reset_at=([s.randint(1, 4)] if s.random() < 0.3 else []))


def _screens(plan):
    """The universe screen (its mappings also list conditions without data) and a factory for
    fully observed screens over a row range of the training rows."""
    from batchie.data import Screen

    rows = [list(r) for r in plan["rows"]]
    universe = list(rows)
    for smp in plan["all_samples"] + plan["extra_samples"]:
        for c in plan["all_conds"] + plan["extra_conds"]:
            universe.append([smp, [[c[0], c[1]], ["", 0.0]], 0.5, "zz_universe", False])
    full = gen.make_screen(dict(control="", arity=2, rows=universe))

    def part(lo, hi):
        if hi <= lo:
            return None
        return Screen(treatment_names=full.treatment_names[lo:hi], treatment_doses=full.treatment_doses[lo:hi],
                      sample_names=full.sample_names[lo:hi], plate_names=full.plate_names[lo:hi],
                      observations=full.observations[lo:hi], observation_mask=np.ones(hi - lo, dtype=bool),
                      control_treatment_name="", treatment_mapping=full.treatment_mapping, sample_mapping=full.sample_mapping)

    return full, part


# ---------------------------------------------------------------------------- seam


class Monitor:
    def __init__(self, plan, model, train, log, stats, violation):
        self.plan, self.model, self.wm, self.train = plan, model, model.wrapped_model, train
        self.log, self.stats, self.violation = log, stats, violation
        self.gen = np.random.default_rng(plan["seed"])
        self.frnd = sub_rng(plan["fault_seed"], "faults")
        self.block = None
        self.block_events = 0
        self.blocks_seen = []
        self.internal_errors = []
        self.in_mvn = False
        self.last_served = {}
        self.mvn_cases = []
        self.judged = dict(vector=0, nodata=0, precision=0, scalar=0)
        self.flags = set()
        self.pending_chol = None
        self.stop = False
        self.mag_max = None

    # --- state helpers -------------------------------------------------------------
    def theta(self, **override):
        from batchie.models.sparse_combo import SparseDrugComboMCMCSample

        wm = self.wm
        d = dict(W=wm.W.astype(float), W0=wm.W0.astype(float), V2=wm.V2.astype(float), V1=wm.V1.astype(float),
                 V0=wm.V0.astype(float), alpha=float(wm.alpha), precision=float(wm.prec))
        d.update(override)
        return SparseDrugComboMCMCSample(**d)

    def fitted(self, **override):
        if self.train is None:
            return np.zeros(0)
        return np.asarray(self.theta(**override).predict_conditional_mean(self.train), dtype=float)

    def magnitude(self):
        """Row-wise sum of absolute term magnitudes: the natural floating-point scale of a fitted value.
        The sampler's float32 cache is updated incrementally within a step, so its rounding error
        reflects the largest magnitude seen since the step began (running maximum, reset per step)."""
        cur = self._magnitude_now()
        if self.mag_max is None or self.mag_max.shape != cur.shape:
            self.mag_max = cur
        else:
            self.mag_max = np.maximum(self.mag_max, cur)
        return self.mag_max

    def _magnitude_now(self):
        if self.train is None:
            return np.zeros(0)
        wm = self.wm
        from batchie.models.sparse_combo import SparseDrugComboMCMCSample

        t = SparseDrugComboMCMCSample(W=np.abs(wm.W).astype(float), W0=np.abs(wm.W0).astype(float), V2=np.abs(wm.V2).astype(float),
                                      V1=np.abs(wm.V1).astype(float), V0=np.abs(wm.V0).astype(float), alpha=abs(float(wm.alpha)), precision=1.0)
        return np.asarray(t.predict_conditional_mean(self.train), dtype=float) + 1.0

    def y(self):
        return np.asarray(self.wm.y, dtype=float)

    def has_rows(self, block, idx):
        """Does the training set contain an experiment of this sample / treatment (by the screen's own ids)?"""
        if self.train is None:
            return False
        if block in ("_W_step", "_W0_step"):
            return bool(np.any(np.asarray(self.train.sample_ids) == idx))
        return bool(np.any(np.asarray(self.train.treatment_ids) == idx))

    def fail(self, oid, trigger, msg):
        self.violation(oid, trigger, msg)
        self.stop = True

    # --- draws -----------------------------------------------------------------------
    def serve_normal(self, loc, scale, size):
        shape = np.broadcast(np.asarray(loc), np.asarray(scale)).shape if size is None else (size if isinstance(size, tuple) else (size,))
        z = self.gen.standard_normal(shape)
        if not self.in_mvn and self.plan["extreme_rate"] and self.frnd.random() < self.plan["extreme_rate"]:
            z = np.where(self.gen.random(shape) < 0.5, 6.0, -6.0) * np.ones(shape)
            self.stats.fault("rng.extreme")
            self.flags.add("extreme")
        val = np.asarray(loc, dtype=float) + np.asarray(scale, dtype=float) * z
        return val if shape else float(val)

    def serve_gamma(self, shape_p, scale, size):
        shp = np.broadcast(np.asarray(shape_p), np.asarray(scale)).shape if size is None else (size if isinstance(size, tuple) else (size,))
        val = self.gen.gamma(np.asarray(shape_p, dtype=float), np.asarray(scale, dtype=float), size=shp if shp else None)
        if self.plan["extreme_rate"] and self.frnd.random() < self.plan["extreme_rate"]:
            # tail values far enough to reach both clipping bounds, not so far that products of several of
            # them leave the float32 range the sampler computes in (that would test numpy, not the sampler)
            factor = 1e-6 if self.frnd.random() < 0.5 else 1e6
            val = np.asarray(val) * factor
            self.stats.fault("rng.extreme")
            self.flags.add("extreme")
        return val if shp else float(val)

    def on_normal(self, loc, scale, size, via):
        if self.in_mvn:
            return self.serve_normal(loc, scale, size)
        try:
            self.judge_normal(np.asarray(loc, dtype=float), np.asarray(scale, dtype=float), via)
        except Exception as e:  # monitors never raise inside the sampler
            self.internal_errors.append(repr(e))
        self.block_events += 1
        return self.serve_normal(loc, scale, size)

    def on_gamma(self, shape_p, scale, size, via):
        try:
            self.judge_gamma(np.asarray(shape_p, dtype=float), np.asarray(scale, dtype=float), via)
        except Exception as e:
            self.internal_errors.append(repr(e))
        val = self.serve_gamma(shape_p, scale, size)
        self.last_served[(self.block, self.block_events)] = np.asarray(val, dtype=float)
        self.block_events += 1
        return val

    def on_mvn(self, orig, Q, mu_part, rng):
        inject = False
        try:
            self.judge_mvn(np.asarray(Q, dtype=float), np.asarray(mu_part, dtype=float))
            if len(self.mvn_cases) < 3:
                self.mvn_cases.append((np.array(Q, dtype=float), np.array(mu_part, dtype=float)))
            inject = bool(self.plan["chol_rate"]) and self.frnd.random() < self.plan["chol_rate"]
        except Exception as e:
            self.internal_errors.append(repr(e))
        idx = self.block_events
        self.block_events += 1
        if inject:
            self.stats.fault("numeric.cholesky")
            self.flags.add("cholesky")
            blk = self.block
            arr = {"_W_step": self.wm.W, "_V2_step": self.wm.V2, "_V1_step": self.wm.V1}[blk]
            self.pending_chol = (blk, idx, arr[idx].copy())
            raise np.linalg.LinAlgError("injected: matrix is not positive definite")
        self.in_mvn = True
        try:
            return orig(Q, mu_part=mu_part, rng=rng)
        finally:
            self.in_mvn = False

    # --- reference conditionals -------------------------------------------------------
    def prior_precision(self, block, idx):
        wm = self.wm
        if block == "_W_step":
            return np.asarray(wm.tau, dtype=float) * np.ones(wm.D)
        if block == "_W0_step":
            return np.array([float(wm.tau0)])
        if block == "_V2_step":
            return np.asarray(wm.phi2[idx], dtype=float) * np.asarray(wm.eta2, dtype=float)
        if block == "_V1_step":
            return np.asarray(wm.phi1[idx], dtype=float) * np.asarray(wm.eta1, dtype=float)
        if block == "_V0_step":
            return np.array([float(wm.phi0[idx]) * float(wm.eta0)])
        raise KeyError(block)

    def conditional(self, block, idx):
        """Reference (Q, b, J, f0) of a Gaussian block by probing the exported prediction function."""
        wm = self.wm
        self.magnitude()
        name = {"_W_step": "W", "_W0_step": "W0", "_V2_step": "V2", "_V1_step": "V1", "_V0_step": "V0"}[block]
        arr = getattr(wm, name).astype(float)
        dim = arr.shape[1] if arr.ndim == 2 else 1
        zero = arr.copy()
        zero[idx] = 0.0
        f0 = self.fitted(**{name: zero})
        J = np.zeros((len(f0), dim))
        for k in range(dim):
            e = zero.copy()
            if arr.ndim == 2:
                e[idx, k] = 1.0
            else:
                e[idx] = 1.0
            J[:, k] = self.fitted(**{name: e}) - f0
        lam = self.prior_precision(block, idx)
        prec = float(wm.prec)
        Q = prec * (J.T @ J) + np.diag(lam)
        y = self.y()
        b = prec * (J.T @ (y - f0)) if len(y) else np.zeros(dim)
        # natural floating-point scale of b (float32 arithmetic in the sampler)
        bscale = prec * (np.abs(J).T @ (np.abs(y) + self.magnitude())) if len(y) else np.zeros(dim)
        return Q, b, J, lam, bscale

    def judge_normal(self, loc, scale, via):
        if self.stop:
            return
        blk, idx = self.block, self.block_events
        self.stats.oracle_evals += 1
        self.log.ev("draw", blk, idx, "normal", via, digest([np.round(loc, 3), np.round(scale, 3)]))
        if blk not in ("_W0_step", "_V0_step", "_W_step", "_V2_step", "_V1_step"):
            return self.fail("C08.unexpected-draw", f"{blk}:normal", f"a normal draw in block {blk}")
        n_idx = self.wm.n_clines if blk in ("_W_step", "_W0_step") else self.wm.n_drugdoses
        if idx >= n_idx:
            return self.fail("C08.block-draw-count", blk, f"block {blk} made more than {n_idx} draws")
        Q, b, J, lam, bscale = self.conditional(blk, idx)
        has_data = self.has_rows(blk, idx)
        if blk in ("_W_step", "_V2_step", "_V1_step"):
            # a plain normal draw in a vector block is only right for an index without data: prior N(0, 1/lambda)
            if has_data:
                return self.fail("C08.prior-draw-despite-data", blk, f"{blk} index {idx} has training rows but was drawn from its prior")
            want_sd = 1.0 / np.sqrt(lam)
            if np.any(loc != 0) or not np.allclose(np.broadcast_to(scale, want_sd.shape), want_sd, rtol=1e-5):
                return self.fail("C08.prior-draw", blk, f"{blk} index {idx} (no data): requested N({loc}, {scale}), prior is N(0, {want_sd})")
            self.judged["nodata"] += 1
            return
        q = float(Q[0, 0])
        want_mean = float(b[0]) / q
        want_sd = 1.0 / math.sqrt(q)
        mean_tol = TOL * (float(bscale[0]) / q + abs(want_mean)) + 1e-9
        if abs(float(scale) - want_sd) > 1e-5 * want_sd or abs(float(loc) - want_mean) > mean_tol:
            return self.fail("C08.scalar-conditional", blk,
                             f"{blk} index {idx}: requested N(mean={float(loc)!r}, sd={float(scale)!r}); full conditional is "
                             f"N({want_mean!r}, {want_sd!r}) (data rows: {int(np.sum(J[:, 0] != 0))})")
        self.judged["scalar" if has_data else "nodata"] += 1

    def judge_mvn(self, Q, mu_part):
        if self.stop:
            return
        blk, idx = self.block, self.block_events
        self.stats.oracle_evals += 1
        self.log.ev("draw", blk, idx, "mvn", digest([np.round(Q, 2), np.round(mu_part, 2)]))
        if blk not in ("_W_step", "_V2_step", "_V1_step"):
            return self.fail("C08.unexpected-draw", f"{blk}:mvn", f"a multivariate draw in block {blk}")
        Qr, br, J, lam, bscale = self.conditional(blk, idx)
        if not self.has_rows(blk, idx):
            return self.fail("C08.conditional-without-data", blk, f"{blk} index {idx} has no training rows but a data conditional was requested")
        if np.linalg.norm(Q - Qr) > TOL * (np.linalg.norm(Qr) + 1e-12):
            return self.fail("C08.vector-conditional-Q", blk,
                             f"{blk} index {idx}: requested precision differs from prec*J'J + prior precision by "
                             f"{np.linalg.norm(Q - Qr) / (np.linalg.norm(Qr) + 1e-12):.3g} (relative)")
        if np.linalg.norm(mu_part - br) > TOL * (np.linalg.norm(bscale) + np.linalg.norm(br)) + 1e-9:
            return self.fail("C08.vector-conditional-b", blk,
                             f"{blk} index {idx}: requested linear term {mu_part} differs from prec*J'(y - f(theta_b=0)) = {br}")
        self.judged["vector"] += 1

    def judge_gamma(self, shape_p, scale, via):
        if self.stop:
            return
        blk, k = self.block, self.block_events
        wm = self.wm
        self.stats.oracle_evals += 1
        self.log.ev("draw", blk, k, "gamma", via, digest([np.round(shape_p, 4), np.round(np.log(scale + 1e-300), 3)]))
        n = wm.n_obs()
        a0, b0 = float(wm.a0), float(wm.b0)

        def check(want_shape, want_rate, what, rate_scale=None):
            want_shape = np.asarray(want_shape, dtype=float)
            want_rate = np.asarray(want_rate, dtype=float)
            rate = 1.0 / np.asarray(scale, dtype=float)
            if np.broadcast(shape_p, want_shape).shape != want_shape.shape or not np.allclose(shape_p, want_shape, rtol=1e-6):
                return self.fail("C08.gamma-shape", f"{blk}:{what}", f"{blk} {what}: requested shape {shape_p}, conjugate update has {want_shape}")
            rs = np.abs(want_rate) if rate_scale is None else np.asarray(rate_scale, dtype=float)
            lo = want_rate - TOL * rs - 1e-9
            hi = want_rate + 1e-3 + TOL * rs + 1e-9
            if rate.shape != want_rate.shape:
                rate = np.broadcast_to(rate, want_rate.shape)
            if np.any(rate < lo) or np.any(rate > hi):
                bad = np.argwhere((rate < lo) | (rate > hi))[:2].tolist()
                return self.fail("C08.gamma-rate", f"{blk}:{what}",
                                 f"{blk} {what}: requested rate {rate.ravel()[:4]} outside [b, b+1e-3] with b = {want_rate.ravel()[:4]} at {bad}")
            self.judged["precision"] += 1

        if blk == "_prec_W0_step":
            if k != 0:
                return self.fail("C08.block-draw-count", blk, "more than one draw")
            return check(a0 + 0.5 * wm.n_clines, b0 + 0.5 * float(np.sum(wm.W0.astype(float) ** 2)), "tau0")
        if blk == "_prec_obs_step":
            if k != 0:
                return self.fail("C08.block-draw-count", blk, "more than one draw")
            if n == 0:
                return check(a0, b0, "prior")
            resid = self.y() - self.fitted()
            sse_scale = float(np.sum(2 * np.abs(resid) * self.magnitude())) + 1e-9
            return check(a0 + 0.5 * n, b0 + 0.5 * float(np.sum(resid**2)), "noise", rate_scale=b0 + 0.5 * float(np.sum(resid**2)) + sse_scale)
        if blk in ("_prec_V0_step", "_prec_V1_step", "_prec_V2_step"):
            sfx = blk[7]
            V = getattr(wm, "V" + sfx).astype(float)
            phi = np.asarray(getattr(wm, "phi" + sfx), dtype=float)
            eta = np.asarray(getattr(wm, "eta" + sfx), dtype=float)
            if k == 0:  # a | phi ~ Gamma(1, 1 + phi)
                rate = 1.0 / np.asarray(scale, dtype=float)
                if not np.allclose(shape_p, 1.0) or not np.allclose(rate, 1.0 + phi, rtol=1e-5):
                    return self.fail("C08.gamma-rate", f"{blk}:local-aux", f"{blk}: auxiliary of the local scales requested rate {rate.ravel()[:3]}, 1+phi = {(1 + phi).ravel()[:3]}")
                self.judged["precision"] += 1
                return
            if k == 1:  # phi | a ~ Gamma(1, a + eta V^2 / 2)
                aux = self.last_served[(blk, 0)]
                return check(np.ones_like(V), aux + 0.5 * eta * V**2, "local")
            if k == 2:  # a' | eta ~ Gamma(1, 1 + eta)
                rate = 1.0 / np.asarray(scale, dtype=float)
                if not np.allclose(shape_p, 1.0) or not np.allclose(rate, 1.0 + eta, rtol=1e-5):
                    return self.fail("C08.gamma-rate", f"{blk}:global-aux", f"{blk}: auxiliary of the global scale requested rate {rate}, 1+eta = {1 + eta}")
                self.judged["precision"] += 1
                return
            if k == 3:
                aux = self.last_served[(blk, 2)]
                s2 = (phi * V**2).sum(0) if V.ndim == 2 else float((phi * V**2).sum())
                return check(0.5 * (1 + wm.n_drugdoses) * np.ones_like(np.asarray(s2, dtype=float)), aux + 0.5 * np.asarray(s2), "global")
            return self.fail("C08.block-draw-count", blk, f"{blk} made more than 4 draws")
        if blk == "_prec_W_step":
            D = wm.D
            if k >= D:
                return self.fail("C08.block-draw-count", blk, f"{blk} made more than {D} draws")
            gam = np.asarray(wm.gam, dtype=float)
            W2 = wm.W.astype(float) ** 2
            tau_h = np.cumprod(gam)
            if np.any(tau_h < 1e-30) or np.any(tau_h > 1e30) or np.any(gam < 1e-30) or np.any(gam > 1e30):
                self.stats.probe("gamma_process_outside_float32_range_not_judged")
                return
            if k == 0:
                tmp = tau_h / gam[0]
                return check(2 + 0.5 * wm.n_clines * D, 1 + 0.5 * float((tmp * W2).sum()), "delta0")
            tmp = tau_h[k:] / gam[k]
            return check(3 + 0.5 * wm.n_clines * (D - k), 1 + 0.5 * float((tmp * W2[:, k:]).sum()), f"delta{min(k, 1)}+")
        return self.fail("C08.unexpected-draw", f"{blk}:gamma", f"a gamma draw in block {blk}")

    # --- block level invariants -----------------------------------------------------------
    def after_block(self, blk):
        if self.stop:
            return
        wm = self.wm
        self.stats.oracle_evals += 1
        n = wm.n_obs()
        # running fitted values equal those implied by the current parameters
        if n:
            mu = np.asarray(wm.Mu, dtype=float)
            ref_mu = self.fitted()
            mag = self.magnitude()
            if mu.shape != ref_mu.shape or np.any(np.abs(mu - ref_mu) > TOL * mag):
                i = int(np.argmax(np.abs(mu - ref_mu) / mag)) if mu.shape == ref_mu.shape else -1
                return self.fail("C08.cache-inconsistent", blk,
                                 f"after {blk}: cached fitted value of row {i} is {mu[i] if i >= 0 else mu.shape!r}, parameters imply {ref_mu[i] if i >= 0 else ref_mu.shape!r}")
        # expected number of draws
        want = {"_alpha_step": 0, "_W0_step": wm.n_clines, "_W_step": wm.n_clines, "_V0_step": wm.n_drugdoses, "_V2_step": wm.n_drugdoses,
                "_V1_step": wm.n_drugdoses, "_prec_W0_step": 1, "_prec_obs_step": 1, "_prec_V0_step": 4, "_prec_V1_step": 4,
                "_prec_V2_step": 4, "_prec_W_step": wm.D}[blk]
        if self.block_events != want:
            return self.fail("C08.block-draw-count", blk, f"{blk} made {self.block_events} draws, expected {want}")
        if blk == "_alpha_step" and n:
            want_alpha = float(np.mean(self.y()))
            if abs(float(wm.alpha) - want_alpha) > 1e-5 * (1 + abs(want_alpha)):
                return self.fail("C08.intercept", blk, f"global intercept {float(wm.alpha)!r}, mean of transformed observations {want_alpha!r}")
        if blk.startswith("_prec"):
            C = 1.0 / math.sqrt(1 + n)
            lo, hi = C * (1 - 1e-6), 1e6 * (1 + 1e-6)
            vals = {"prec": wm.prec, "tau0": wm.tau0, "tau": wm.tau, "eta0": wm.eta0, "eta1": wm.eta1, "eta2": wm.eta2}
            touched = {"_prec_W0_step": ["tau0"], "_prec_obs_step": ["prec"], "_prec_V0_step": ["eta0"], "_prec_V1_step": ["eta1"],
                       "_prec_V2_step": ["eta2"], "_prec_W_step": ["tau"]}[blk]
            for name in touched:
                if name == "prec" and n == 0:
                    continue  # without any observation the noise precision is a plain prior draw (not an 'observed dataset')
                v = np.asarray(vals[name], dtype=float)
                if np.any(v < lo) or np.any(v > hi) or np.any(~np.isfinite(v)):
                    return self.fail("C08.precision-bounds", f"{blk}:{name}", f"after {blk}: {name} = {v.ravel()[:4]} outside [{C}, 1e6]")
                if np.any(v <= C * (1 + 1e-6)):
                    self.flags.add("clip-low")
                if np.any(v >= 1e6 * (1 - 1e-6)):
                    self.flags.add("clip-high")
            if blk in ("_prec_V0_step", "_prec_V1_step", "_prec_V2_step"):
                phi = np.asarray(getattr(wm, "phi" + blk[7]), dtype=float)
                N1 = np.array([len(wm.dd1_idxs[c]) for c in range(wm.n_drugdoses)])
                N2 = np.array([len(wm.dd2_idxs[c]) for c in range(wm.n_drugdoses)])
                Cl = 1.0 / np.sqrt(1.0 + N1 + N2)
                Cl = Cl[:, None] if phi.ndim == 2 else Cl
                if np.any(phi < Cl * (1 - 1e-6)) or np.any(phi > hi) or np.any(~np.isfinite(phi)):
                    return self.fail("C08.precision-bounds", f"{blk}:phi", f"after {blk}: local scales outside [1/sqrt(1+N1+N2), 1e6]")
        if self.pending_chol is not None:
            b, idx, old = self.pending_chol
            if b == blk:
                arr = {"_W_step": wm.W, "_V2_step": wm.V2, "_V1_step": wm.V1}[blk]
                if not np.array_equal(arr[idx], old):
                    return self.fail("C08.failed-draw-changed-state", blk, f"after an injected Cholesky failure {blk} index {idx} changed")
                self.stats.probe("cholesky_failure_survived")
                self.pending_chol = None


class SeamRng:
    def __init__(self, mon, via):
        self.mon, self.via = mon, via

    def normal(self, loc=0.0, scale=1.0, size=None):
        return self.mon.on_normal(loc, scale, size, self.via)

    def gamma(self, shape, scale=1.0, size=None):
        return self.mon.on_gamma(shape, scale, size, self.via)


class NpProxy:
    """Forwarding proxy for the module-level name `np` of the model module: `.random` is the seam
    (draws from numpy's global state are recorded and served too), everything else is numpy."""

    def __init__(self, mon):
        self.random = SeamRng(mon, "global")

    def __getattr__(self, name):
        return getattr(np, name)


# -------------------------------------------------------------------------- execution


def execute(prop, plan):
    launch.quiet()
    log, stats, viol = EventLog(), RunStats(), []

    def violation(oid, trigger, msg):
        sig = f"{oid}/{trigger}"
        log.ev("violation", sig)
        if not any(v["signature"] == sig for v in viol):
            viol.append(Violation(prop, oid, sig, msg))

    np.seterr(all="ignore")
    _run(plan, log, stats, violation)
    return dict(digest=log.digest(), violations=viol, stats=stats.to_dict(), log_head=log.head)


def _run(plan, log, stats, violation):
    import batchie.models.sparse_combo as SC
    from batchie.data import ExperimentSpace

    full, part = _screens(plan)
    es = ExperimentSpace.from_screen(full)
    model = SC.SparseDrugCombo(experiment_space=es, n_embedding_dimensions=plan["D"])
    n_rows = len(plan["rows"])
    # observations arrive in batches between sampler steps (no reset in between): add_at[step] = rows [lo, hi)
    cuts = sorted(set(min(n_rows, c) for c in plan.get("cuts", [])) | {n_rows})
    add_at = {}
    lo = 0
    for k, hi in enumerate(cuts):
        step_k = 0 if k == 0 else min(k * max(1, plan.get("cut_gap", 1)), plan["n_steps"] - 1)
        prev = add_at.get(step_k)
        add_at[step_k] = (prev[0] if prev else lo, hi)
        lo = hi

    def add_rows(lo, hi):
        chunk = part(lo, hi)
        if chunk is None:
            return True
        try:
            model.add_observations(chunk)
        except Exception as e:
            log.ev("add-observations-raised", type(e).__name__)
            return False
        return True

    first = add_at.get(0, (0, 0))
    if not add_rows(*first):
        return
    have = first[1]
    wm = model.wrapped_model
    mon = Monitor(plan, model, part(0, have), log, stats, violation)
    model.set_rng(SeamRng(mon, "generator"))
    orig_np, orig_mvn = SC.np, SC.sample_mvn_from_precision

    def mvn(Q, mu=None, mu_part=None, chol_factor=False, rng=None):
        return mon.on_mvn(orig_mvn, Q, mu_part, rng if rng is not None else SeamRng(mon, "mvn-default"))

    for name in BLOCKS:
        def mk(name=name, fn=getattr(wm, name)):
            def wrapped(*a, **k):
                mon.block, mon.block_events = name, 0
                mon.blocks_seen.append(name)
                try:
                    return fn(*a, **k)
                finally:
                    try:
                        mon.after_block(name)
                    except Exception as e:
                        mon.internal_errors.append(repr(e))
                    mon.block = None
            return wrapped
        setattr(wm, name, mk())
    SC.np = NpProxy(mon)
    SC.sample_mvn_from_precision = mvn
    try:
        for step in range(plan["n_steps"]):
            if step > 0 and step in add_at:
                lo_, hi_ = add_at[step]
                if not add_rows(lo_, hi_):
                    break
                have = hi_
                mon.train = part(0, have)
                stats.probe("observations_added_between_steps")
                mon.flags.add("incremental-data")
            if step > 0 and step in plan.get("reset_at", []):
                # the model object is reused for another sampling run: sampling.sample() resets it first
                model.reset_model()
                stats.probe("model_reset_between_steps")
                mon.flags.add("reset")
            mon.blocks_seen = []
            mon.mag_max = None  # the cache is rebuilt from scratch at the start of every step
            try:
                model.step()
            except Exception as e:
                violation("C08.step-raised", type(e).__name__, f"sampler step {step} raised {e!r}")
                break
            stats.steps += 1
            if mon.stop:
                break
            if mon.blocks_seen != BLOCKS:
                violation("C08.block-order", "mcmc_step", f"step {step} visited {mon.blocks_seen}, documented order is {BLOCKS}")
                break
            # exported posterior sample reproduces the fitted values and the noise precision
            stats.oracle_evals += 1
            th = model.get_model_state()
            train = mon.train
            if train is not None:
                pm = np.asarray(th.predict_conditional_mean(train), dtype=float)
                mag = mon.magnitude()
                # the cache was updated incrementally through the precision blocks (they do not touch it)
                if np.any(np.abs(pm - np.asarray(wm.Mu, dtype=float)) > TOL * mag):
                    violation("C08.exported-sample", "mean", f"step {step}: exported sample does not reproduce the sampler's fitted values")
                    break
                pv = np.asarray(th.predict_conditional_variance(train), dtype=float)
                if np.any(np.abs(pv - 1.0 / float(wm.prec)) > 1e-9 / float(wm.prec)):
                    violation("C08.exported-sample", "variance", f"step {step}: exported variance {pv[:2]} != 1/precision {1 / float(wm.prec)}")
                    break
            log.ev("step", step, digest([np.round(wm.W, 3), np.round(wm.V0, 3), round(float(wm.prec), 4)]))
    finally:
        SC.np, SC.sample_mvn_from_precision = orig_np, orig_mvn
    if mon.internal_errors:
        raise HarnessError(f"gibbssim monitor failed: {mon.internal_errors[:2]}")
    # the multivariate normal draw itself, algebraically through the seam
    for Q, b in mon.mvn_cases:
        _mvn_algebra(orig_mvn, Q, b, stats, violation)
    j = mon.judged
    if j["vector"] and j["nodata"] and j["precision"]:
        stats.key(plan["D"], wm.n_clines, wm.n_drugdoses, len(plan["rows"]), plan["n_steps"], tuple(sorted(mon.flags)))
    for k, v in j.items():
        stats.probe("judged_" + k, v)
    for fl in mon.flags:
        stats.probe("flag_" + fl)


class _UnitFeeder:
    def __init__(self, vec):
        self.vec = vec

    def normal(self, loc=0.0, scale=1.0, size=None):
        return self.vec.copy()


def _mvn_algebra(fn, Q, b, stats, violation):
    """x = A z + m must have A A' = Q^-1 and m = Q^-1 b (factorisation-agnostic)."""
    n = Q.shape[0]
    stats.oracle_evals += 1
    try:
        # offset with z = 0, linear map with b = 0: no cancellation between the two parts
        m = np.asarray(fn(Q.copy(), mu_part=b.copy(), rng=_UnitFeeder(np.zeros(n))), dtype=float)
        A = np.column_stack([np.asarray(fn(Q.copy(), mu_part=np.zeros(n), rng=_UnitFeeder(np.eye(n)[i])), dtype=float) for i in range(n)])
    except np.linalg.LinAlgError:
        return
    Qi = np.linalg.inv(Q)
    if np.linalg.norm(A @ A.T - Qi) > 1e-7 * (np.linalg.norm(Qi) + 1e-300) * max(1.0, np.linalg.cond(Q)):
        violation("C08.mvn-covariance", "sample_mvn_from_precision", f"draw has covariance {A @ A.T} but Q^-1 = {Qi}")
    elif np.linalg.norm(m - Qi @ b) > 1e-7 * (np.linalg.norm(Qi @ b) + 1e-300) * max(1.0, np.linalg.cond(Q)):
        violation("C08.mvn-mean", "sample_mvn_from_precision", f"draw has mean {m} but Q^-1 b = {Qi @ b}")


def reducers(prop, plan):
    rows = plan["rows"]
    if len(rows) > 1:
        for i in range(len(rows)):
            cand = json.loads(json.dumps(plan))
            del cand["rows"][i]
            yield cand
    if plan["n_steps"] > 1:
        cand = json.loads(json.dumps(plan))
        cand["n_steps"] -= 1
        yield cand
    for key in ("chol_rate", "extreme_rate"):
        if plan[key]:
            cand = json.loads(json.dumps(plan))
            cand[key] = 0.0
            yield cand
    if plan["D"] > 1:
        cand = json.loads(json.dumps(plan))
        cand["D"] -= 1
        yield cand
