"""distsim (pipesim distance phase): per-chunk calculate_distance_matrix worker processes over
real ThetaHolder files, a seeded completion order, and the combining stage that receives the
chunk files in arrival order -- with duplicated and lost chunks as injected faults.  Serves C07.
"""
from __future__ import annotations

import json

import numpy as np

from simkit import gen, launch, pipe
from simkit.kernel import EventLog, Forks, RunStats, Scratch, Violation, digest, f64_bits, sub_rng

SPEC = {
    "C07": dict(engine="distsim", level="fault_enumeration", runs=dict(quick=700, thorough=3000), chunk=5,
                rule="per run: n posterior samples (0-14) in 1-3 holder files, a chunk count from 1 to more than the number of "
                     "pairs, one calculate_distance_matrix process per chunk, a seeded arrival order at the combining stage with "
                     "chunk.duplicate / chunk.lose faults (thorough: ALL single duplications and ALL single losses of the sampled "
                     "configuration are enumerated); non-trivial if >= 2 non-empty chunk files were combined; distinct = distinct "
                     "(n, n_chunks, metric, arrival permutation class, fault kind) tuples",
                real=["batchie.cli.calculate_distance_matrix.main (one in-process launch per chunk)",
                      "batchie.distance_calculation (chunk arithmetic, ChunkedDistanceMatrix add/save/load/combine/concat/to_dense)",
                      "batchie.distance.mse.MSEDistance; batchie.core.ThetaHolder files; real predict_viability of both sample types"],
                stub=["nextflow scheduling of the chunk workers (seeded completion order, duplicate / lost publication)",
                      "a scripted DistanceMetric with a distinct value per unordered pair (zeros included), resolved through the real "
                      "introspection.get_class"],
                assumptions=["a chunk file is published whole or not at all", "n <= 14 posterior samples (91 pairs)"]),
}


METRIC_CLS = None


def _install_metric():
    """A scripted DistanceMetric: distinct value per unordered pair of prediction vectors,
    chosen by the simulator.  Bound into a real batchie module so that the CLI's own
    introspection.get_class resolves it."""
    global METRIC_CLS
    if METRIC_CLS is not None:
        return METRIC_CLS
    from batchie.core import DistanceMetric

    class ScriptedPairDistance(DistanceMetric):
        table = {}
        calls = []
        unknown = []

        def __init__(self):
            pass

        def distance(self, a, b):
            ka, kb = digest(np.asarray(a)), digest(np.asarray(b))
            ScriptedPairDistance.calls.append((ka, kb))
            if ka == kb:
                return 0.0
            v = ScriptedPairDistance.table.get(frozenset((ka, kb)))
            if v is None:  # asked about something that is not a pair of the samples' viability predictions
                ScriptedPairDistance.unknown.append((ka, kb))
                return 123456.0
            return v

    pipe.inject_class("batchie.distance.mse", ScriptedPairDistance)
    METRIC_CLS = ScriptedPairDistance
    return METRIC_CLS


def preload(prop):
    launch.preload_cli()
    import batchie.cli.calculate_distance_matrix  # noqa

    _install_metric()


def reset_state():
    global METRIC_CLS
    METRIC_CLS = None


def gen_plan(prop, run_seed, tier):
    F = Forks(run_seed)
    w, s, f = F.fork("workload"), F.fork("schedule"), F.fork("faults")
    n = w.choice([0, 1, 2, 3, 3, 4, 5, 6, 7, 8, 10, 12, 14, 16, 18])
    if w.random() < 0.04:  # more samples (and pairs) than any plausible block size
        n = w.choice([24, 34])
    elif w.random() < 0.012:  # indices beyond what one (signed) byte holds
        n = w.choice([131, 140])
    pairs = n * (n - 1) // 2
    n_chunks = w.choice([1, 2, 3, max(1, pairs // 2), max(1, pairs - 1), max(1, pairs), pairs + 1, pairs + 3, w.randint(1, max(2, pairs + 2))])
    if n <= 20 and w.random() < 0.45:
        n_chunks = w.randint(1, min(60, pairs + 3))  # any chunk count: boundary arithmetic differs per (pairs, n_chunks)
    if n > 100:
        n_chunks = w.choice([1, 2, 3, 7])
    elif n > 20:
        n_chunks = w.choice([1, 3, 7, 33, 65])
    k_files = 1 if n < 2 else w.randint(1, min(3, n))
    cuts = sorted(w.sample(range(1, n), k_files - 1)) if k_files > 1 else []
    lens = [b - a for a, b in zip([0] + cuts, cuts + [n])]
    spec = pipe.gen_pipeline_screen(w, n_plates=w.randint(1, 3), rows_per_plate=w.randint(1, 4))
    order = list(range(n_chunks))
    s.shuffle(order)
    faults = dict(dup=[], lose=None)
    u = f.random()
    if u < 0.35 and n_chunks >= 1:
        faults["dup"] = [f.randrange(n_chunks) for _ in range(f.randint(1, 2))]
    elif u < 0.6:
        faults["lose"] = f.randrange(n_chunks)
    return dict(engine="distsim", prop=prop, n=n, lens=lens, n_chunks=n_chunks, screen=spec,
                theta_seed=w.randrange(2**31), model=w.choice(["sdc", "sdc", "sdci"]), D=w.randint(1, 3),
                metric=w.choice(["scripted", "scripted", "mse", "mse_nosig"]), order=order, faults=faults,
                dup_pos=s.randrange(1000), enumerate_faults=(tier == "thorough" and n <= 14), zero_rate=w.choice([0.0, 0.2]),
                identical_pair=w.random() < 0.2)


def execute(prop, plan):
    launch.quiet()
    log, stats, viol = EventLog(), RunStats(), []

    def violation(oid, trigger, msg):
        sig = f"{oid}/{trigger}"
        log.ev("violation", sig)
        if not any(v["signature"] == sig for v in viol):
            viol.append(Violation(prop, oid, sig, msg))

    with Scratch("dist") as scratch:
        _run(plan, scratch, log, stats, violation)
    return dict(digest=log.digest(), violations=viol, stats=stats.to_dict(), log_head=log.head)


def _chunk_partition_oracle(n, n_chunks, violation, stats):
    from batchie.distance_calculation import get_lower_triangular_indices_chunk

    seen = {}
    sizes = []
    for ci in range(n_chunks):
        idx = get_lower_triangular_indices_chunk(n=n, chunk_index=ci, n_chunks=n_chunks)
        sizes.append(len(idx))
        for ij in idx:
            ij = (int(ij[0]), int(ij[1]))
            if ij in seen:
                violation("C07.chunks-overlap", "get_lower_triangular_indices_chunk",
                          f"n={n} n_chunks={n_chunks}: pair {ij} is in chunks {seen[ij]} and {ci}")
                return None
            seen[ij] = ci
    want = {(i, j) for i in range(n) for j in range(i)}
    stats.oracle_evals += 1
    if set(seen) != want:
        violation("C07.chunks-cover", "get_lower_triangular_indices_chunk",
                  f"n={n} n_chunks={n_chunks}: missing {sorted(want - set(seen))[:3]} extra {sorted(set(seen) - want)[:3]}")
        return None
    if sizes and max(sizes) - min(sizes) > 1:
        violation("C07.chunks-balance", "get_lower_triangular_indices_chunk", f"n={n} n_chunks={n_chunks}: sizes {sizes}")
    return seen, sizes


def _run(plan, scratch, log, stats, violation):
    from batchie.core import ThetaHolder
    from batchie.data import Screen
    from batchie.distance.mse import MSEDistance
    from batchie.distance_calculation import ChunkedDistanceMatrix, calculate_pairwise_distance_matrix_on_predictions

    n, n_chunks = plan["n"], plan["n_chunks"]
    res = _chunk_partition_oracle(n, n_chunks, violation, stats)
    stats.steps += 1
    log.ev("partition", n, n_chunks, None if res is None else res[1])
    if res is None:
        return
    owner, sizes = res
    screen = gen.make_screen(plan["screen"])
    rng = np.random.default_rng(plan["theta_seed"])
    n_samp, n_treat = pipe.space_sizes(screen)
    lookup = pipe.full_lookup(n_samp, n_treat, rng)
    thetas = []
    for k in range(n):
        if plan["model"] == "sdc":
            thetas.append(pipe.make_sdc_theta(rng, n_samp, n_treat, plan["D"]))
        else:
            thetas.append(pipe.make_sdci_theta(rng, n_samp, n_treat, plan["D"], lookup, scale=0.5))
    if plan.get("identical_pair") and n >= 2:
        thetas[1] = thetas[0]
    if n < 2:
        # function level only: a holder with 0 thetas cannot be saved; 1 theta has no pairs
        holder = ThetaHolder(n_thetas=n)
        for t in thetas:
            holder.add_theta(t)
        parts = []
        for ci in range(n_chunks):
            parts.append(calculate_pairwise_distance_matrix_on_predictions(
                thetas=holder, distance_metric=MSEDistance(), data=screen, chunk_index=ci, n_chunks=n_chunks))
        stats.steps += n_chunks
        try:
            dense = ChunkedDistanceMatrix.concat(parts).to_dense()
        except Exception as e:
            violation("C07.assemble-raised", f"trivial:{type(e).__name__}", f"n={n}: assembling the empty matrix raised {e!r}")
            return
        stats.oracle_evals += 1
        if dense.shape != (n, n) or np.any(dense != 0):
            violation("C07.matrix", "trivial", f"n={n}: dense matrix {dense.tolist()}")
        log.ev("trivial", n, dense.shape)
        return

    # ---- files: screen + holder files (chain files of unequal length)
    spath = scratch.file("screen.h5")
    screen.save_h5(spath)
    tpaths = []
    pos = 0
    for ln in plan["lens"]:
        tpaths.append(pipe.save_holder(thetas[pos: pos + ln], scratch.file("thetas.h5")))
        pos += ln
    preds = [np.asarray(t.predict_viability(screen)) for t in thetas]
    pkeys = [digest(p) for p in preds]

    # ---- metric
    metric_name, metric_params = "MSEDistance", {}
    metric_obj = MSEDistance()
    if plan["metric"] == "mse_nosig":
        metric_obj = MSEDistance(sigmoid=False)  # not settable through the CLI (has a default): function-level workers
    elif plan["metric"] == "scripted":
        cls = _install_metric()
        trng = sub_rng(plan["theta_seed"], "table")
        table = {}
        vals = list(range(1, n * n + 1))
        trng.shuffle(vals)
        for i in range(n):
            for j in range(i):
                if pkeys[i] == pkeys[j]:
                    continue
                v = 0.0 if trng.random() < plan.get("zero_rate", 0.0) else vals.pop() / 8.0
                table[frozenset((pkeys[i], pkeys[j]))] = v
        cls.table = table
        cls.calls = []
        cls.unknown = []
        metric_name = "ScriptedPairDistance"
        metric_obj = cls()

    # reference matrix: plain loop, metric applied to the two samples' viability predictions
    want = np.zeros((n, n))
    for i in range(n):
        for j in range(i):
            v = float(metric_obj.distance(preds[i], preds[j]))
            v2 = float(metric_obj.distance(preds[j], preds[i]))
            stats.oracle_evals += 1
            if f64_bits(np.array([v]))[0] != f64_bits(np.array([v2]))[0]:
                violation("C07.metric-asymmetric", plan["metric"], f"metric({i},{j})={v!r} but metric({j},{i})={v2!r}")
            if not v >= 0:
                violation("C07.metric-negative", plan["metric"], f"metric({i},{j})={v!r}")
            want[i, j] = want[j, i] = v
        z = float(metric_obj.distance(preds[i], preds[i].copy()))
        if z != 0.0:
            violation("C07.metric-identity", plan["metric"], f"metric on identical predictions = {z!r}")
    if plan["metric"] == "scripted":
        metric_obj.__class__.calls = []

    def worker(out, ci, nch, entropy):
        if plan["metric"] == "mse_nosig":
            holder = ThetaHolder.concat([ThetaHolder.load_h5(p) for p in tpaths])
            calculate_pairwise_distance_matrix_on_predictions(
                thetas=holder, distance_metric=MSEDistance(sigmoid=False), data=Screen.load_h5(spath),
                chunk_index=ci, n_chunks=nch).save(out)
        else:
            pipe.p_distance(spath, tpaths, out, n_chunks=nch, chunk_index=ci, metric=metric_name,
                            metric_params=metric_params, entropy=entropy)

    # ---- worker processes, one per chunk, in the seeded completion order
    chunk_files = {}
    for ci in plan["order"]:
        out = scratch.file(f"distance_matrix_chunk_{ci}.h5")
        try:
            worker(out, ci, n_chunks, pipe.h64(plan["theta_seed"], ci))
        except pipe.HarnessError:
            raise
        except Exception as e:
            violation("C07.worker-crashed", type(e).__name__, f"distance worker {ci}/{n_chunks} on valid inputs raised {e!r}")
            return
        if plan["metric"] == "scripted" and METRIC_CLS.unknown:
            violation("C07.metric-input", "calculate_pairwise_distance_matrix_on_predictions",
                      "the metric was applied to vectors that are not the viability predictions of two posterior samples")
            return
        chunk_files[ci] = out
        stats.steps += 1
        log.ev("chunk", ci, pipe.dist_file_digest(out))
    # per-chunk content = exactly the chunk's index set
    for ci, path in chunk_files.items():
        m = ChunkedDistanceMatrix.load(path)
        got = {(int(a), int(b)) for a, b in zip(m.row_indices[: m.current_index], m.col_indices[: m.current_index])}
        wantset = {ij for ij, c in owner.items() if c == ci}
        if got != wantset or m.current_index != len(wantset):
            violation("C07.chunk-content", "calculate_distance_matrix",
                      f"chunk {ci}/{n_chunks} holds pairs {sorted(got)[:4]}.. expected {sorted(wantset)[:4]}..")
            return
        tr = sub_rng(plan["theta_seed"], "torn", ci)
        if tr.random() < 0.08:
            # fault store.torn-save: a chunk file cut off while being written must be refused or read as the chunk it is
            dg = pipe.dist_file_digest(path)
            verdict = pipe.torn_roundtrip(m.save, ChunkedDistanceMatrix.load,
                                          lambda g: digest([int(g.size), g.row_indices[:g.current_index].tolist(), g.col_indices[:g.current_index].tolist(),
                                                            f64_bits(g.values[:g.current_index]).tolist()]) == dg,
                                          scratch.file("count.h5"), scratch.file("torn.h5"), tr.random())
            if verdict:
                stats.fault("store.torn-save")
                stats.probe("torn_archive_" + verdict)
                log.ev("torn", ci, verdict)
            if verdict == "different":
                violation("C07.torn-archive-read-as-something-else", "ChunkedDistanceMatrix.load",
                          f"a distance chunk file whose writing was cut off was accepted and reads as other content than chunk {ci}")
                return

    def assemble(file_seq):
        mats = [ChunkedDistanceMatrix.load(p) for p in file_seq]  # fresh objects: only files cross
        return ChunkedDistanceMatrix.concat(mats)

    def judge_complete(file_seq, label, fault):
        stats.oracle_evals += 1
        try:
            dense = assemble(file_seq).to_dense()
        except Exception as e:
            violation("C07.assemble-raised", f"{fault}:{type(e).__name__}",
                      f"n={n} n_chunks={n_chunks} {label}: combining a complete set of chunks raised {e!r}")
            return False
        if dense.shape != (n, n) or f64_bits(dense).tolist() != f64_bits(want).tolist():
            bad = np.argwhere(dense != want)[:3].tolist() if dense.shape == want.shape else "shape"
            violation("C07.matrix", fault, f"n={n} n_chunks={n_chunks} {label}: assembled matrix differs from the reference at {bad}")
            return False
        if not np.array_equal(dense, dense.T) or np.any(np.diag(dense) != 0):
            violation("C07.matrix-symmetry", fault, "assembled matrix is not symmetric with zero diagonal")
            return False
        return True

    def judge_incomplete(file_seq, label, lost):
        stats.oracle_evals += 1
        try:
            dense = assemble(file_seq).to_dense()
        except ValueError:
            return True
        except Exception as e:
            violation("C07.incomplete-crash", type(e).__name__, f"{label}: densifying an incomplete matrix raised {e!r} (not ValueError)")
            return False
        violation("C07.incomplete-accepted", "to_dense",
                  f"n={n} n_chunks={n_chunks} {label}: chunk {lost} ({sizes[lost]} pairs) withheld but to_dense returned a matrix")
        return False

    # in-memory reuse: one set of loaded chunk objects is combined repeatedly (several orders, with a repeat)
    stats.oracle_evals += 1
    loaded = {ci: ChunkedDistanceMatrix.load(p) for ci, p in chunk_files.items()}
    orders = [list(plan["order"]), sorted(plan["order"]), sorted(plan["order"], reverse=True),
              list(plan["order"]) + [plan["order"][plan["dup_pos"] % len(plan["order"])]]]
    for k, od in enumerate(orders):
        try:
            dense = ChunkedDistanceMatrix.concat([loaded[ci] for ci in od]).to_dense()
        except Exception as e:
            violation("C07.assemble-raised", f"object-reuse:{type(e).__name__}",
                      f"n={n} n_chunks={n_chunks}: combining the same loaded chunk objects a {k + 1}. time (order {od}) raised {e!r}")
            break
        if dense.shape != (n, n) or f64_bits(dense).tolist() != f64_bits(want).tolist():
            violation("C07.matrix", "object-reuse", f"n={n} n_chunks={n_chunks}: combining the same loaded chunk objects again (order {od}) gives another matrix")
            break
    for ci, m in loaded.items():
        if m.current_index != sizes[ci]:
            violation("C07.chunk-mutated", "concat", f"chunk object {ci} holds {m.current_index} pairs after being combined, it was loaded with {sizes[ci]}")
            break
    arrival = [chunk_files[ci] for ci in plan["order"]]
    nonempty = sum(1 for ci in plan["order"] if sizes[ci] > 0)
    # single-chunk computation agrees
    one = scratch.file("distance_matrix_chunk_all.h5")
    worker(one, 0, 1, 1)
    stats.steps += 1
    judge_complete([one], "single chunk", "none")
    judge_complete(arrival, f"arrival order {plan['order']}", "order.permute")
    stats.fault("order.permute")
    perm_class = "identity" if plan["order"] == sorted(plan["order"]) else ("reversed" if plan["order"] == sorted(plan["order"], reverse=True) else "mixed")
    fk = "none"
    if plan["faults"]["dup"]:
        seq = list(arrival)
        for k, ci in enumerate(plan["faults"]["dup"]):
            ci = ci % n_chunks
            seq.insert((plan["dup_pos"] + k * 7) % (len(seq) + 1), chunk_files[ci])
        stats.fault("chunk.duplicate", len(plan["faults"]["dup"]))
        judge_complete(seq, f"arrival with duplicates of {plan['faults']['dup']}", "chunk.duplicate")
        fk = "dup"
    if plan["faults"]["lose"] is not None:
        lost = plan["faults"]["lose"] % n_chunks
        seq = [chunk_files[ci] for ci in plan["order"] if ci != lost]
        if sizes[lost] > 0 and seq:
            stats.fault("chunk.lose")
            judge_incomplete(seq, "arrival minus one chunk", lost)
            fk = "lose"
        elif seq:
            judge_complete(seq, "arrival minus an empty chunk", "chunk.lose-empty")
            stats.probe("lost_chunk_was_empty")
    if plan.get("enumerate_faults"):
        for ci in range(n_chunks):
            for pos in (0, len(arrival)):
                seq = list(arrival)
                seq.insert(pos, chunk_files[ci])
                judge_complete(seq, f"duplicate of chunk {ci} at {pos}", "chunk.duplicate")
                stats.fault("chunk.duplicate")
            seq = [chunk_files[c] for c in plan["order"] if c != ci]
            if not seq:
                continue
            if sizes[ci] > 0:
                judge_incomplete(seq, "enumerated loss", ci)
                stats.fault("chunk.lose")
            else:
                judge_complete(seq, "enumerated loss of an empty chunk", "chunk.lose-empty")
        stats.probe("all_single_faults_enumerated")
    if nonempty >= 2:
        stats.key(n, n_chunks, plan["metric"], perm_class, fk, len(plan["lens"]))
    if n_chunks > n * (n - 1) // 2:
        stats.probe("more_chunks_than_pairs")
    log.ev("done", digest(want))


def reducers(prop, plan):
    if plan["n"] > 2:
        cand = json.loads(json.dumps(plan))
        cand["n"] -= 1
        cand["lens"] = [cand["n"]]
        yield cand
    if plan["n_chunks"] > 1:
        cand = json.loads(json.dumps(plan))
        cand["n_chunks"] -= 1
        cand["order"] = [c for c in cand["order"] if c < cand["n_chunks"]]
        yield cand
    if plan["order"] != sorted(plan["order"]):
        cand = json.loads(json.dumps(plan))
        cand["order"] = sorted(cand["order"])
        yield cand
    if plan["metric"] != "mse":
        cand = json.loads(json.dumps(plan))
        cand["metric"] = "mse"
        yield cand
