"""dbalsim (pipesim scoring phase, DBAL scorer): the same plates are scored under different
*partition schedules* -- one worker, split over score workers, scorer sub-batches, permuted
plate order, permuted rows, relabelled posterior samples, reseeded generator -- and against a
loop-by-loop reference of the documented estimator.  Serves C05."""
from __future__ import annotations

import json
import math

import numpy as np

from simkit import gen, launch, pipe, ref
from simkit.kernel import EventLog, Forks, RunStats, Violation, digest, sub_rng

SPEC = {
    "C05": dict(engine="dbalsim", level="exploration", runs=dict(quick=1500, thorough=15000), chunk=10,
                rule="per run: 1-7 plates of 1-8 experiments (ragged, including size-1 plates and a single plate), 3-8 posterior "
                     "samples (all triples enumerated), variances over six orders of magnitude (homoscedastic real samples or a "
                     "heteroscedastic FakeTheta), a symmetric non-negative distance matrix with zeros; every plate is scored under "
                     "5-9 schedules (alone, co-scored, every chunk count, scorer sub-batch sizes, permuted plate dict, permuted rows, "
                     "relabelled samples, reseeded generator, the two array entry points) and compared with the reference and with "
                     "itself across schedules; non-trivial if >= 2 plates of unequal size were co-scored; distinct = distinct "
                     "(plate size multiset, n_thetas, variance mode, schedule set) tuples",
                real=["batchie.scoring.gaussian_dbal: GaussianDBALScorer.score, dbal_fast_gaussian_scoring_homoscedastic / "
                      "_heteroscedastic / dbal_fast_gauss_scoring_vectorized, pad_ragged_arrays_to_dense_array",
                      "batchie.scoring.main.score_chunk (score workers), batchie.models.main.predict_mean_all / predict_variance_all",
                      "batchie.distance_calculation.ChunkedDistanceMatrix, real SparseDrugComboMCMCSample predictions"],
                stub=["FakeTheta (Theta interface) with simulator-chosen per-experiment means and variances for the heteroscedastic path",
                      "worker scheduling: which plates are co-scored is decided by the simulator"],
                assumptions=["the per-experiment Gaussian triple term is frozen from the pinned commit's docstring/implementation "
                             "(the only written definition); the reference is independent in padding, masks, axes, sub-batching, "
                             "triple indexing", "tolerance 1e-9*(1+|score|)"]),
}

TOL = 1e-9


def preload(prop):
    launch.quiet()
    import batchie.scoring.gaussian_dbal  # noqa
    import batchie.scoring.main  # noqa


def gen_plan(prop, run_seed, tier):
    F = Forks(run_seed)
    w, s = F.fork("workload"), F.fork("schedule")
    n_plates = w.choice([1, 2, 2, 3, 4, 5, 7])
    sizes = [w.choice([1, 1, 2, 3, 4, 6, 8]) for _ in range(n_plates)]
    n = w.choice([3, 3, 4, 5, 6, 8])
    extremes = False
    if w.random() < 0.05:  # more plates / larger plates / more samples than any plausible block size
        kind = w.choice(["plates", "sizes", "samples"])
        if kind == "plates":
            n_plates = w.choice([33, 70])
            sizes = [w.choice([1, 1, 2, 3]) for _ in range(n_plates)]
        elif kind == "sizes":
            sizes[w.randrange(n_plates)] = w.choice([33, 70, 130])
            if w.random() < 0.5:
                # two full-size plates whose variances sit at opposite ends of the promised six orders of magnitude:
                # their log-scores are more than 700 nats apart (exp() of the difference underflows)
                sizes = [96, 70] + sizes[:2]
                n_plates = len(sizes)
                extremes = True
        else:
            n = w.choice([10, 13, 20, 23, 32])  # C(32,3) = 4960 <= the default budget of 5000: still enumerated
    return dict(engine="dbalsim", prop=prop, sizes=sizes, n=n, plate_extremes=extremes,
                var_regime=w.choice(["spread", "spread", "spread", "nearly-equal", "tiny"]),
                mode=("platehomo" if extremes else w.choice(["homo", "hetero", "platehomo"])),
                seed=w.randrange(2**31), zero_dist=w.choice([0.0, 0.2, 0.6, 1.0 if w.random() < 0.15 else 0.3]),
                D=w.randint(1, 3), var_span=w.choice([1, 3, 6]), sched_seed=s.randrange(2**31),
                n_chunks=s.choice([2, 3, n_plates, n_plates + 2]), max_chunks=[1, s.randint(2, 3), 50])


def _make_fake_theta_cls():
    from batchie.core import Theta

    class FakeTheta(Theta):
        """Per-experiment means and variances over the rows of one parent screen."""

        def __init__(self, mean_full, var_full):
            self.mean_full = np.asarray(mean_full, dtype=float)
            self.var_full = np.asarray(var_full, dtype=float)

        def _sel(self, data):
            sv = getattr(data, "selection_vector", None)
            return slice(None) if sv is None else np.asarray(sv)

        def predict_conditional_mean(self, data):
            return self.mean_full[self._sel(data)].copy()

        def predict_viability(self, data):
            return 1.0 / (1.0 + np.exp(-self.mean_full[self._sel(data)]))

        def predict_conditional_variance(self, data):
            return self.var_full[self._sel(data)].copy()

        def private_parameters_dict(self):
            return dict(mean_full=self.mean_full, var_full=self.var_full)

        @classmethod
        def from_dicts(cls, private_params, shared_params):
            return cls(**private_params)

    return FakeTheta


_FAKE = {}


def fake_theta_cls():
    if "c" not in _FAKE:
        _FAKE["c"] = _make_fake_theta_cls()
    return _FAKE["c"]


def reset_state():
    _FAKE.clear()


def _holder(thetas):
    from batchie.core import ThetaHolder

    h = ThetaHolder(n_thetas=len(thetas))
    for t in thetas:
        h.add_theta(t)
    return h


def _dm(D, order=None):
    """A complete ChunkedDistanceMatrix; `order` permutes the sequence in which the pairs are stored
    (chunk files may be combined in any arrival order, so storage order is not canonical)."""
    from batchie.distance_calculation import ChunkedDistanceMatrix

    n = D.shape[0]
    m = ChunkedDistanceMatrix(size=n)
    pairs = [(i, j) for i in range(n) for j in range(i)]
    if order is not None:
        pairs = [pairs[k] for k in order]
    for i, j in pairs:
        m.add_value(i, j, float(D[i, j]))
    return m


def execute(prop, plan):
    launch.quiet()
    log, stats, viol = EventLog(), RunStats(), []

    def violation(oid, trigger, msg):
        sig = f"{oid}/{trigger}"
        log.ev("violation", sig)
        if not any(v["signature"] == sig for v in viol):
            viol.append(Violation(prop, oid, sig, msg))

    _run(plan, log, stats, violation)
    return dict(digest=log.digest(), violations=viol, stats=stats.to_dict(), log_head=log.head)


def _build_screen(plan, rnd, perm=None):
    """Screen with plates of the planned sizes; optional row permutation."""
    rows = []
    conds = [(f"d{i}", 1.0) for i in range(5)]
    for k, sz in enumerate(plan["sizes"]):
        for _ in range(sz):
            a = rnd.choice(conds)
            b = rnd.choice([c for c in conds if c != a])
            rows.append([rnd.choice(["s0", "s1"]), [[a[0], a[1]], [b[0], b[1]]], 0.5, f"p{k:02d}", False])
    # one observed plate so that the screen looks like a running simulation
    rows.append(["s0", [["d0", 1.0], ["d1", 1.0]], 0.4, "zz_obs", True])
    order = list(range(len(rows)))
    if perm is not None:
        order = perm
    spec = dict(control="", arity=2, rows=[rows[i] for i in order])
    return gen.make_screen(spec), order, len(rows)


def _run(plan, log, stats, violation):
    import batchie.scoring.gaussian_dbal as G
    from batchie.scoring.main import score_chunk

    n = plan["n"]
    rnd = sub_rng(plan["seed"], "dbal")
    nprng = np.random.default_rng(plan["seed"])
    screen, order0, n_rows = _build_screen(plan, sub_rng(plan["seed"], "rows"))
    n_samp, n_treat = pipe.space_sizes(screen)
    # posterior samples
    if plan["mode"] == "homo":
        thetas = [pipe.make_sdc_theta(nprng, n_samp, n_treat, plan["D"], scale=0.8,
                                      precision=float(10 ** nprng.uniform(-plan["var_span"] / 2, plan["var_span"] / 2)))
                  for _ in range(n)]
    elif plan["mode"] == "hetero":
        FT = fake_theta_cls()
        vr = plan.get("var_regime", "spread")

        def variances():
            if vr == "nearly-equal":  # distinct variances a tolerance would call equal
                return float(10 ** nprng.uniform(-2, 2)) * (1 + 1e-7 * nprng.uniform(-1, 1, n_rows))
            if vr == "tiny":  # the low end of the range, with a few per cent of spread
                return 1e-6 * (1 + 0.05 * nprng.uniform(-1, 1, n_rows))
            return 10 ** nprng.uniform(-plan["var_span"] / 2, plan["var_span"] / 2, n_rows)

        thetas = [FT(nprng.normal(0, 1.5, n_rows), variances()) for _ in range(n)]
    else:
        # one variance per (plate, posterior sample): homoscedastic within a plate, different between plates
        FT = fake_theta_cls()
        plate_of_row = np.asarray(screen.plate_ids)
        thetas = []
        n_pl = int(plate_of_row.max()) + 1
        level = np.array([(-2.8 if k % 2 == 0 else 2.8) for k in range(n_pl)])
        for _ in range(n):
            if plan.get("plate_extremes"):
                per_plate = 10 ** (level + nprng.uniform(-0.2, 0.2, n_pl))
            else:
                per_plate = 10 ** nprng.uniform(-plan["var_span"] / 2, plan["var_span"] / 2, n_pl)
            thetas.append(FT(nprng.normal(0, 1.5, n_rows), per_plate[plate_of_row]))
    # distance matrix: symmetric, non-negative, zeros included
    D = np.zeros((n, n))
    for i in range(n):
        for j in range(i):
            v = 0.0 if rnd.random() < plan["zero_dist"] else rnd.choice([rnd.random(), rnd.random() * 1e-6, rnd.random() * 1e3])
            D[i, j] = D[j, i] = v
    pids = sorted({int(p.plate_id) for p in screen.plates if not p.is_observed})

    def reference(scr, ths, Dm):
        out = {}
        for pid in pids_of(scr):
            plate = scr.get_plate(pid)
            means = [np.asarray(t.predict_conditional_mean(plate), dtype=float).tolist() for t in ths]
            vars_ = [np.asarray(t.predict_conditional_variance(plate), dtype=float).tolist() for t in ths]
            out[name_of(scr, pid)] = ref.ref_dbal_plate(means, vars_, Dm.tolist())
        return out

    def pids_of(scr):
        return sorted(int(p.plate_id) for p in scr.plates if not p.is_observed)

    def name_of(scr, pid):
        return str(scr.get_plate(pid).plate_name)

    want = reference(screen, thetas, D)
    log.ev("ref", sorted(want.items()))
    stats.steps += 1
    positive_triple = any(D[a, b] + D[b, c] + D[a, c] > 0 for a in range(n) for b in range(a) for c in range(b))
    results = {}  # schedule label -> {plate name: score}

    def close(a, b):
        if a is None or b is None:
            return a is b
        if math.isinf(a) or math.isinf(b):
            return a == b
        return abs(a - b) <= TOL * (1 + abs(b))

    def record(label, scores_by_name):
        stats.oracle_evals += len(scores_by_name)
        results[label] = scores_by_name
        log.ev("sched", label, sorted((k, round(v, 6) if math.isfinite(v) else str(v)) for k, v in scores_by_name.items()))
        for name, sc in scores_by_name.items():
            if not close(float(sc), want[name]):
                violation("C05.differs-from-reference", label.split(":")[0],
                          f"schedule {label}: plate {name} (sizes {plan['sizes']}, n={n}, {plan['mode']}) scored {float(sc)!r}, "
                          f"direct estimator gives {want[name]!r}")
                return False
            if positive_triple and not math.isfinite(float(sc)):
                violation("C05.not-finite", label.split(":")[0], f"schedule {label}: plate {name} scored {sc!r} although a triple has positive distance")
                return False
        return True

    def scorer_scores(scr, ths, Dm, plate_ids, max_chunk, seed, dict_order=None, dm_order=None):
        sc = G.GaussianDBALScorer(max_chunk=max_chunk, max_triples=5000)
        plates = {pid: scr.get_plate(pid) for pid in plate_ids}
        if dict_order is not None:
            plates = {pid: plates[pid] for pid in dict_order}
        out = sc.score(plates=plates, distance_matrix=_dm(Dm, dm_order), samples=_holder(ths), rng=np.random.default_rng(seed), progress_bar=False)
        return {name_of(scr, int(k)): float(v) for k, v in out.items()}

    srnd = sub_rng(plan["sched_seed"], "sched")
    try:
        # (i) one worker, all plates together
        if not record("one-worker", scorer_scores(screen, thetas, D, pids, 50, 1)):
            return
        # (i') each plate alone
        alone = {}
        for pid in pids:
            alone.update(scorer_scores(screen, thetas, D, [pid], 50, 2))
        if not record("alone", alone):
            return
        # (ii) split over score workers: every chunk index of the chosen chunk count
        for nc in sorted({plan["n_chunks"], 2}):
            merged = {}
            for ci in range(nc):
                h = score_chunk(scorer=G.GaussianDBALScorer(max_chunk=plan["max_chunks"][1]), thetas=_holder(thetas), screen=screen,
                                distance_matrix=_dm(D), rng=np.random.default_rng(100 + ci), n_chunks=nc, chunk_index=ci)
                for pid, v in zip(h.plate_ids.tolist(), h.scores.tolist()):
                    merged[name_of(screen, int(pid))] = float(v)
                stats.steps += 1
            if not record(f"workers:{nc}", merged):
                return
        # (iii) scorer sub-batch sizes
        for mc in plan["max_chunks"]:
            if not record(f"max_chunk:{mc}", scorer_scores(screen, thetas, D, pids, mc, 3)):
                return
        # (iii') one scorer object serving several calls (a worker scoring chunk after chunk): earlier calls
        # on other plates / other samples must not leak into later ones
        shared = G.GaussianDBALScorer(max_chunk=plan["max_chunks"][1], max_triples=5000)
        # first call: other samples order AND another distance matrix of the same size (an earlier round's draw)
        D_prev = (D * 1.7 + 0.3) * (1 - np.eye(n))
        shared.score(plates={pids[-1]: screen.get_plate(pids[-1])}, distance_matrix=_dm(D_prev), samples=_holder(thetas[::-1]),
                     rng=np.random.default_rng(9), progress_bar=False)
        out_shared = shared.score(plates={pid: screen.get_plate(pid) for pid in pids}, distance_matrix=_dm(D), samples=_holder(thetas),
                                  rng=np.random.default_rng(10), progress_bar=False)
        if not record("scorer-reuse", {name_of(screen, int(k)): float(v) for k, v in out_shared.items()}):
            return
        # (iii'') the distance chunks arrived in another order: the same pairs are stored in another sequence
        n_pairs = n * (n - 1) // 2
        dm_order = list(range(n_pairs))
        srnd.shuffle(dm_order)
        if not record("distance-arrival-order", scorer_scores(screen, thetas, D, pids, 50, 11, dm_order=dm_order)):
            return
        # (iii-d) the triple budget equals the number of triples exactly (boundary of "C(n,3) <= budget")
        from math import comb as _comb

        exact = _comb(n, 3)
        sc_exact = G.GaussianDBALScorer(max_chunk=50, max_triples=exact)
        out_exact = sc_exact.score(plates={pid: screen.get_plate(pid) for pid in pids}, distance_matrix=_dm(D), samples=_holder(thetas),
                                   rng=np.random.default_rng(12), progress_bar=False)
        if not record("budget-equals-triples", {name_of(screen, int(k)): float(v) for k, v in out_exact.items()}):
            return
        # (iii-e) fault alloc.failure: one call of the scoring kernel cannot get its work arrays (MemoryError).  Scoring may
        # fail with it; scores that ARE returned must still be the direct estimator (no silently cheaper estimate)
        if len(pids) >= 2 and srnd.random() < 0.5:
            real_kernel = G.dbal_fast_gauss_scoring_vectorized
            calls = [0]
            fail_at = srnd.randint(1, 2)

            def kernel(*a, **k):
                calls[0] += 1
                if calls[0] == fail_at:
                    stats.fault("alloc.failure")
                    raise MemoryError("Unable to allocate work arrays")
                return real_kernel(*a, **k)

            G.dbal_fast_gauss_scoring_vectorized = kernel
            try:
                got_af = scorer_scores(screen, thetas, D, pids, srnd.choice([1, 2]), 13)
            except MemoryError:
                got_af = None
                stats.probe("scoring_failed_on_alloc_failure")
            finally:
                G.dbal_fast_gauss_scoring_vectorized = real_kernel
            if got_af is not None and not record("alloc-failure", got_af):
                return
        # (iv) permuted plate dict
        po = list(pids)
        srnd.shuffle(po)
        if not record("plate-order", scorer_scores(screen, thetas, D, pids, 2, 4, dict_order=po)):
            return
        # entropy.reseed: with all triples enumerated the generator only permutes summation order
        if not record("reseed", scorer_scores(screen, thetas, D, pids, 50, srnd.randrange(2**31))):
            return
        stats.fault("entropy.reseed")
        # (vi) relabelled posterior samples with a consistently relabelled distance matrix
        pi = list(range(n))
        srnd.shuffle(pi)
        th2 = [thetas[i] for i in pi]
        D2 = D[np.ix_(pi, pi)]
        if not record("relabel", scorer_scores(screen, th2, D2, pids, 50, 5)):
            return
        stats.fault("order.permute")
        # (v) rows permuted inside the screen
        perm = list(range(n_rows))
        srnd.shuffle(perm)
        scr2, _, _ = _build_screen(plan, sub_rng(plan["seed"], "rows"), perm=perm)
        if plan["mode"] in ("hetero", "platehomo"):
            FT = fake_theta_cls()
            th3 = [FT(t.mean_full[perm], t.var_full[perm]) for t in thetas]
        else:
            th3 = thetas
        if not record("row-order", scorer_scores(scr2, th3, D, pids_of(scr2), 50, 6)):
            return
        # the two array entry points on identical inputs
        plates = [screen.get_plate(pid) for pid in pids]
        means = [np.stack([np.asarray(t.predict_conditional_mean(p), dtype=float) for t in thetas]) for p in plates]
        varis = [np.stack([np.asarray(t.predict_conditional_variance(p), dtype=float) for t in thetas]) for p in plates]
        budget = exact if srnd.random() < 0.5 else 5000
        het = G.dbal_fast_gaussian_scoring_heteroscedastic(per_plate_predictions=means, variances=varis, distance_matrix=D,
                                                           rng=np.random.default_rng(7), max_combos=budget)
        if not record("entry:heteroscedastic", {name_of(screen, pid): float(v) for pid, v in zip(pids, het)}):
            return
        if plan["mode"] in ("homo", "platehomo"):
            v_homo = np.stack([v[:, 0] for v in varis])  # (n_plates, n_thetas)
            hom = G.dbal_fast_gaussian_scoring_homoscedastic(per_plate_predictions=means, variances=v_homo, distance_matrix=D,
                                                             rng=np.random.default_rng(8), max_combos=budget)
            if not record("entry:homoscedastic", {name_of(screen, pid): float(v) for pid, v in zip(pids, hom)}):
                return
    except Exception as e:
        violation("C05.scoring-raised", type(e).__name__, f"scoring valid inputs (sizes {plan['sizes']}, n={n}, {plan['mode']}) raised {e!r}")
        return
    # cross-schedule agreement (already implied by agreement with the reference; logged for the digest)
    labels = sorted(results)
    for name in want:
        vals = [results[l][name] for l in labels if name in results[l]]
        if any(not close(v, vals[0]) for v in vals):
            violation("C05.schedule-dependent", "cross", f"plate {name} scored differently across schedules: {dict(zip(labels, vals))}")
    if len(set(plan["sizes"])) >= 2:
        stats.key(tuple(sorted(plan["sizes"])), n, plan["mode"], plan["var_span"], plan["n_chunks"], plan["zero_dist"] >= 1.0)
    if 1 in plan["sizes"]:
        stats.probe("size_1_plate")
    if len(plan["sizes"]) == 1:
        stats.probe("single_plate")
    if not positive_triple:
        stats.probe("all_triple_distances_zero")


def reducers(prop, plan):
    if len(plan["sizes"]) > 1:
        for i in range(len(plan["sizes"])):
            cand = json.loads(json.dumps(plan))
            del cand["sizes"][i]
            yield cand
    for i, sz in enumerate(plan["sizes"]):
        if sz > 1:
            cand = json.loads(json.dumps(plan))
            cand["sizes"][i] = sz - 1
            yield cand
    if plan["n"] > 3:
        cand = json.loads(json.dumps(plan))
        cand["n"] -= 1
        yield cand
