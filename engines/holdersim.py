"""holdersim: (a) a ThetaHolder operation machine (add / get / save / load across a process
boundary / combine / concat) checked against a plain Python list; (b) pipesim evaluation phase:
chain files produced by train_model processes (or synthetic chains of unequal length) arrive at
the evaluate_model process in a seeded order.  Serves C10."""
from __future__ import annotations

import json

import numpy as np

from simkit import gen, launch, pipe
from simkit.kernel import EventLog, Forks, RunStats, Scratch, Violation, digest, f64_bits, sub_rng

ADVERSARIAL = [5e-324, -5e-324, 2.2250738585072014e-308, 0.1, 1.0000000000000002, 16777217.0, 1e300, -1e300,
               0.0, -0.0, 1.0 / 3.0, 3.141592653589793, 1e-40, 123456789.12345679]

SPEC = {
    "C10": dict(engine="holdersim", level="exploration", runs=dict(quick=500, thorough=5000), chunk=5,
                rule="per run (a) a seeded history of add_theta / get_theta (also out of range) / save (also empty) / load in a "
                     "fresh object graph / combine / concat on holders of both sample types with float64-adversarial parameter "
                     "values (denormals, values that do not survive float32, signed zeros, NaN), >= 10 samples per holder in a "
                     "fixed share of runs, checked against a Python list; (b) 1-4 chain files (synthetic, or trained by real "
                     "train_model processes) handed to an evaluate_model process in a seeded arrival order; non-trivial if a "
                     "reload of >= 2 samples was compared or >= 2 chains were evaluated; distinct = distinct (sample type, holder "
                     "sizes, op multiset, arrival permutation, chain lengths) tuples",
                real=["batchie.core.ThetaHolder (add_theta, get_theta, save_h5, load_h5, combine, concat)",
                      "SparseDrugComboMCMCSample / SparseDrugComboInteractionMCMCSample (private/shared parameter dicts, from_dicts, predict_*)",
                      "batchie.cli.evaluate_model.main, batchie.cli.train_model.main (in-process launches), batchie.models.main.ModelEvaluation"],
                stub=["nextflow groupTuple(): arrival order of chain files decided by the simulator",
                      "synthetic chain files (simulator-chosen parameters) in most runs; real Gibbs chains in a sampled share"],
                assumptions=["holders hold one sample type (the file format stores the class of the first sample only)"]),
}


def preload(prop):
    launch.preload_cli()
    import batchie.cli.evaluate_model  # noqa
    import batchie.cli.train_model  # noqa


def gen_plan(prop, run_seed, tier):
    F = Forks(run_seed)
    w, s = F.fork("workload"), F.fork("schedule")
    spec = pipe.gen_pipeline_screen(w, n_plates=w.randint(1, 3), rows_per_plate=w.randint(1, 4))
    model = w.choice(["sdc", "sdc", "sdci", "sdci_empty"])
    big = w.random() < 0.3
    n_ops = s.randint(4, 14 if tier == "quick" else 40)
    ops = []
    for _ in range(n_ops):
        ops.append(dict(op=s.choice(["add", "add", "add", "get", "get_oob", "save_load", "save_load", "combine", "concat",
                                     "overfill", "save_empty", "new"]), sub=s.randrange(2**31)))
    n_chains = s.randint(1, 4)
    lens = [s.choice([1, 2, 3, 5, 11 if big else 4]) for _ in range(n_chains)]
    if s.random() < 0.06:  # chains longer than any plausible block size, of unequal length, in any position
        lens[s.randrange(n_chains)] = s.choice([33, 70, 130])
    order = list(range(n_chains))
    s.shuffle(order)
    return dict(engine="holdersim", prop=prop, screen=spec, model=model, D=w.randint(1, 3), seed=w.randrange(2**31),
                big=big, steps=ops, chains=dict(lens=lens, order=order, real=(s.random() < (0.15 if tier == "quick" else 0.3)),
                                                train_seed=s.randrange(1000),
                                                open_fault=(s.random() if s.random() < 0.35 else None)))


_LOOKUP = {}


def _shared_lookup(n_samp, n_treat):
    """Shared parameters are shared: every sample of a run carries the same single-effect table
    (it is derived from the data, not from the chain) -- the file format stores it once."""
    key = (n_samp, n_treat)
    if key not in _LOOKUP:
        _LOOKUP[key] = pipe.full_lookup(n_samp, n_treat, np.random.default_rng(n_samp * 1000 + n_treat))
    return _LOOKUP[key]


def _adversarial_theta(rnd, nprng, model, n_samp, n_treat, D):
    if model == "sdc":
        t = pipe.make_sdc_theta(nprng, n_samp, n_treat, D)
        arrays = [t.W, t.W0, t.V2, t.V1, t.V0]
    else:
        lookup = {} if model == "sdci_empty" else _shared_lookup(n_samp, n_treat)
        t = pipe.make_sdci_theta(nprng, n_samp, n_treat, D, lookup, scale=0.5)
        arrays = [t.W, t.V2]
    for a in arrays:
        flat = a.reshape(-1)
        for k in range(len(flat)):
            if rnd.random() < 0.3:
                flat[k] = rnd.choice(ADVERSARIAL)
    if rnd.random() < 0.3:
        t.precision = rnd.choice([5e-324, 1e300, 0.1, 1.0000000000000002, 3.0])
    if model == "sdc" and rnd.random() < 0.3:
        t.alpha = rnd.choice(ADVERSARIAL)
    return t


def execute(prop, plan):
    launch.quiet()
    log, stats, viol = EventLog(), RunStats(), []

    def violation(oid, trigger, msg):
        sig = f"{oid}/{trigger}"
        log.ev("violation", sig)
        if not any(v["signature"] == sig for v in viol):
            viol.append(Violation(prop, oid, sig, msg))

    with Scratch("holder") as scratch:
        _machine(plan, scratch, log, stats, violation)
        _chains(plan, scratch, log, stats, violation)
    return dict(digest=log.digest(), violations=viol, stats=stats.to_dict(), log_head=log.head)


def _pred_bits(theta, screen):
    try:
        return (f64_bits(theta.predict_conditional_mean(screen)).tolist(),
                f64_bits(theta.predict_viability(screen)).tolist() if not _is_empty_lookup(theta) else None,
                f64_bits(theta.predict_conditional_variance(screen)).tolist())
    except Exception as e:  # adversarial values may overflow inside exp/expit; both sides must agree
        return ("raised", type(e).__name__)


def _is_empty_lookup(theta):
    return hasattr(theta, "single_effect_lookup") and not theta.single_effect_lookup


def _machine(plan, scratch, log, stats, violation):
    from batchie.core import ThetaHolder

    screen = gen.make_screen(plan["screen"])
    n_samp, n_treat = pipe.space_sizes(screen)
    nprng = np.random.default_rng(plan["seed"])
    holders = []  # [(holder, model list)]
    opsdone = []
    compared = 0
    sizes_seen = set()

    def new_holder(rnd):
        cap = rnd.choice([1, 2, 3, 5, 12 if plan["big"] else 4])
        h = ThetaHolder(n_thetas=cap)
        holders.append([h, [], cap])
        if len(holders) > 5:
            del holders[0]

    np.seterr(all="ignore")
    for i, st in enumerate(plan["steps"]):
        rnd = sub_rng(st["sub"], "holder")
        op = st["op"]
        stats.steps += 1
        if not holders or op == "new":
            new_holder(rnd)
            log.ev("new", holders[-1][2])
            continue
        ent = rnd.choice(holders)
        h, model, cap = ent
        if op == "add":
            k = rnd.randint(1, 3)
            for _ in range(k):
                if len(model) >= cap:
                    break
                t = _adversarial_theta(rnd, nprng, plan["model"], n_samp, n_treat, plan["D"])
                try:
                    h.add_theta(t)
                except Exception as e:
                    violation("C10.add-refused", type(e).__name__, f"add_theta below the declared size ({len(model)}/{cap}) raised {e!r}")
                    return
                model.append(t)
            log.ev("add", len(model), cap)
        elif op == "overfill":
            if len(model) == cap:
                stats.oracle_evals += 1
                t = _adversarial_theta(rnd, nprng, plan["model"], n_samp, n_treat, plan["D"])
                try:
                    h.add_theta(t)
                except ValueError:
                    stats.probe("overfill_refused")
                    continue
                except Exception:
                    continue
                violation("C10.grew-beyond-size", "add_theta", f"holder of declared size {cap} accepted sample number {cap + 1}")
                return
        elif op in ("get", "get_oob"):
            stats.oracle_evals += 1
            if op == "get" and model:
                j = rnd.randrange(len(model))
                try:
                    got = h.get_theta(j)
                except Exception as e:
                    violation("C10.get-raised", type(e).__name__, f"get_theta({j}) of {len(model)} raised {e!r}")
                    return
                if pipe.theta_digest(got) != pipe.theta_digest(model[j]):
                    violation("C10.get-wrong", "get_theta", f"get_theta({j}) returned a different sample")
            else:
                j = rnd.choice([-1, len(model), len(model) + 3, -len(model) - 1])
                try:
                    h.get_theta(j)
                except ValueError:
                    stats.probe("out_of_range_refused")
                    continue
                except Exception:
                    continue
                violation("C10.out-of-range-accepted", "get_theta", f"get_theta({j}) on a holder with {len(model)} samples returned")
        elif op == "save_empty":
            if not model:
                stats.oracle_evals += 1
                try:
                    h.save_h5(scratch.file("empty.h5"))
                except ValueError:
                    stats.probe("empty_save_refused")
                    continue
                except Exception:
                    continue
                violation("C10.empty-saved", "save_h5", "an empty holder was saved")
        elif op == "save_load":
            if not model:
                continue
            p = scratch.file("thetas.h5")
            try:
                h.save_h5(p)
                h2 = ThetaHolder.load_h5(p)  # fresh object graph
            except Exception as e:
                violation("C10.save-load-raised", f"{plan['model']}:{type(e).__name__}",
                          f"save/load of a holder with {len(model)} {plan['model']} samples raised {e!r}")
                return
            stats.oracle_evals += 1
            got = list(h2.thetas)
            log.ev("reload", len(got), digest([pipe.theta_digest(t) for t in got]))
            if len(got) != len(model):
                violation("C10.reload-count", "load_h5", f"saved {len(model)} samples, loaded {len(got)}")
                return
            for j, (a, b) in enumerate(zip(model, got)):
                if pipe.theta_params(a) != pipe.theta_params(b):
                    pa, pb = pipe.theta_params(a), pipe.theta_params(b)
                    bad = [k for k in pa if pa.get(k) != pb.get(k)]
                    violation("C10.reload-differs", f"{plan['model']}:{','.join(sorted(bad))}",
                              f"sample {j} of {len(model)} differs after reload in {bad}")
                    return
                if _pred_bits(a, screen) != _pred_bits(b, screen):
                    violation("C10.reload-predicts-differently", plan["model"], f"sample {j} predicts differently after reload")
                    return
            if sub_rng(st["sub"], "torn").random() < 0.3:
                # fault store.torn-save: the holder's archive is cut off while being written; loading the remains must
                # refuse or give back exactly the samples that were being saved
                verdict = pipe.torn_roundtrip(h.save_h5, ThetaHolder.load_h5,
                                              lambda g: [pipe.theta_params(t) for t in g.thetas] == [pipe.theta_params(t) for t in model],
                                              scratch.file("count.h5"), scratch.file("torn.h5"), sub_rng(st["sub"], "torn-at").random())
                if verdict:
                    stats.fault("store.torn-save")
                    stats.probe("torn_archive_" + verdict)
                    log.ev("torn", verdict)
                if verdict == "different":
                    violation("C10.torn-archive-read-as-something-else", "ThetaHolder.load_h5",
                              "an archive of posterior samples whose writing was cut off was accepted by load_h5 and gives other samples than the ones being saved")
                    return
            if len(model) >= 2:
                compared += 1
                sizes_seen.add(min(len(model), 12))
            if len(model) >= 10:
                stats.probe("reload_of_10_or_more_samples")
            # the reloaded holder replaces the original: later operations run on loaded objects
            ent[0] = h2
            ent[1] = got
            ent[2] = int(h2.n_thetas)
            if ent[2] != cap:
                violation("C10.reload-size", "n_thetas", f"declared size {cap} became {ent[2]} after reload")
        elif op in ("combine", "concat"):
            others = [e for e in holders if e[1] and type(e[1][0]) is (type(model[0]) if model else None)]
            if not model or not others:
                continue
            k = 1 if op == "combine" else rnd.randint(1, 3)
            picks = [rnd.choice(others) for _ in range(k)]
            try:
                if op == "combine":
                    res = h.combine(picks[0][0])
                else:
                    res = ThetaHolder.concat([h] + [p[0] for p in picks])
            except Exception as e:
                violation("C10.concat-raised", type(e).__name__, f"{op} of same-type holders raised {e!r}")
                return
            want = list(model)
            for p in picks:
                want = want + list(p[1])
            stats.oracle_evals += 1
            got = list(res.thetas)
            if [pipe.theta_digest(t) for t in got] != [pipe.theta_digest(t) for t in want]:
                violation("C10.concat-order", op, f"{op} does not keep holder-major order ({len(got)} vs {len(want)} samples)")
                return
            log.ev(op, len(got))
            holders.append([res, want, int(res.n_thetas)])
            if len(holders) > 5:
                del holders[0]
        opsdone.append(op)
    if compared:
        stats.key("machine", plan["model"], tuple(sorted(set(opsdone))), tuple(sorted(sizes_seen)))


def _chains(plan, scratch, log, stats, violation):
    from batchie.core import ThetaHolder
    from batchie.data import Screen
    from batchie.models.main import ModelEvaluation

    ch = plan["chains"]
    spec = json.loads(json.dumps(plan["screen"]))
    screen = gen.make_screen(spec)
    n_samp, n_treat = pipe.space_sizes(screen)
    spath = scratch.file("screen.h5")
    screen.save_h5(spath)
    # a fully observed test screen for evaluate_model
    for r in spec["rows"]:
        r[4] = True
    test = gen.make_screen(spec, treatment_mapping=screen.treatment_mapping, sample_mapping=screen.sample_mapping)
    tpath = scratch.file("test.h5")
    test.save_h5(tpath)
    nprng = np.random.default_rng(plan["seed"] + 1)
    rnd = sub_rng(plan["seed"], "chains")
    files = []
    model = "sdc" if plan["model"] == "sdci_empty" else plan["model"]
    if ch["real"] and model == "sdc":
        n_chains = len(ch["lens"])
        for ci in ch["order"]:  # chain workers complete in this order
            out = scratch.file(f"thetas_{ci}.h5")
            try:
                pipe.p_train(spath, out, model="SparseDrugCombo", model_params={"n_embedding_dimensions": plan["D"]},
                             n_chains=n_chains, chain_index=ci, n_samples=ch["lens"][ci], n_burnin=1, thin=1,
                             seed=ch["train_seed"], entropy=pipe.h64(plan["seed"], ci))
            except pipe.HarnessError:
                raise
            except Exception as e:
                violation("C10.train-crashed", type(e).__name__, f"train_model chain {ci} raised {e!r}")
                return
            files.append(out)
            stats.steps += 1
        stats.probe("real_chains")
    else:
        by_chain = {}
        for ci, ln in enumerate(ch["lens"]):
            thetas = [_adversarial_theta(rnd, nprng, model, n_samp, n_treat, plan["D"]) if rnd.random() < 0.3 else
                      (pipe.make_sdc_theta(nprng, n_samp, n_treat, plan["D"]) if model == "sdc" else
                       pipe.make_sdci_theta(nprng, n_samp, n_treat, plan["D"], _shared_lookup(n_samp, n_treat), scale=0.5))
                      for _ in range(ln)]
            by_chain[ci] = pipe.save_holder(thetas, scratch.file(f"thetas_{ci}.h5"))
        files = [by_chain[ci] for ci in ch["order"]]
    stats.fault("order.permute")
    # expected: chain-major concatenation in the argv order actually used
    want_cols = []
    want_ids = []
    np.seterr(all="ignore")
    for pos, f in enumerate(files):
        h = ThetaHolder.load_h5(f)
        for t in h.thetas:
            want_cols.append(np.asarray(t.predict_viability(test), dtype=float))
            want_ids.append(pos)
    if any(np.isnan(c).any() for c in want_cols):
        log.ev("chains-skipped-nan")  # predict_viability_all refuses NaN predictions (adversarial parameters)
        return
    out = scratch.file("model_evaluation.h5")
    try:
        tf = ch.get("open_fault")
        if tf is not None:
            # fault transient.h5.open: one of the file opens of the evaluation process fails once (lock still held).  The
            # process may die -- it is then run again -- or cope; what it publishes is judged as always
            fpts = launch.FaultPoints({"h5.open": 1 + int(tf * (len(files) + 1)) % (len(files) + 1)})
            try:
                with fpts:
                    pipe.p_evaluate(tpath, files, out, entropy=pipe.h64(plan["seed"], "eval"))
            except pipe.HarnessError:
                raise
            except Exception:
                if not fpts.fired:
                    raise
                stats.probe("evaluate_died_on_transient_fault")
                pipe.p_evaluate(tpath, files, out, entropy=pipe.h64(plan["seed"], "eval"))
            if fpts.fired:
                stats.fault("transient.h5.open")
        else:
            pipe.p_evaluate(tpath, files, out, entropy=pipe.h64(plan["seed"], "eval"))
    except pipe.HarnessError:
        raise
    except Exception as e:
        violation("C10.evaluate-crashed", type(e).__name__, f"evaluate_model on {len(files)} chain files raised {e!r}")
        return
    stats.steps += 1
    me = ModelEvaluation.load_h5(out)
    stats.oracle_evals += 1
    log.ev("eval", ch["order"], digest(np.asarray(me.predictions)), np.asarray(me.chain_ids).tolist())
    if np.asarray(me.chain_ids).tolist() != want_ids:
        violation("C10.chain-ids", "evaluate_model", f"chain_ids {np.asarray(me.chain_ids).tolist()} expected {want_ids} for argv order {ch['order']}")
        return
    pred = np.asarray(me.predictions)
    if pred.shape != (test.size, len(want_cols)):
        violation("C10.eval-shape", "evaluate_model", f"predictions shape {pred.shape}, expected {(test.size, len(want_cols))}")
        return
    for c, col in enumerate(want_cols):
        if f64_bits(pred[:, c]).tolist() != f64_bits(col).tolist():
            violation("C10.chain-major-order", "evaluate_model",
                      f"prediction column {c} is not the prediction of sample {c} of the chain-major concatenation (argv order {ch['order']}, lengths {ch['lens']})")
            return
    if len(files) >= 2:
        perm = "identity" if ch["order"] == sorted(ch["order"]) else "permuted"
        stats.key("chains", model, tuple(ch["lens"][i] for i in ch["order"]), perm, ch["real"])
    if any(l >= 10 for l in ch["lens"]):
        stats.probe("chain_with_10_or_more_samples")


def reducers(prop, plan):
    ch = plan["chains"]
    if len(ch["lens"]) > 1:
        cand = json.loads(json.dumps(plan))
        cand["chains"]["lens"] = ch["lens"][:-1]
        cand["chains"]["order"] = [c for c in ch["order"] if c < len(ch["lens"]) - 1]
        yield cand
    if ch["real"]:
        cand = json.loads(json.dumps(plan))
        cand["chains"]["real"] = False
        yield cand
    if plan["big"]:
        cand = json.loads(json.dumps(plan))
        cand["big"] = False
        yield cand
