"""twinsim (pipesim twin runs): the same plan is executed twice with exactly one difference.

C04 -- the difference is the fault store.poison-masked: bytes behind the observation mask of the
screen file are rewritten (junk, 0, 1, negative, NaN, inf); everything else (seeds, process
entropy, schedule) is identical, so any differing artefact is information flow from masked
values.  Plus training-set exactness against the reference rows and fail-stop on poisoned
observed values.

C18 -- the difference is entropy: process-global numpy / stdlib state, OS entropy and k unrelated
global draws interleaved; inputs and the given generator / --seed are identical, so any differing
output or perturbed global state is a determinism violation.  Tripwires on numpy's global sampling
functions and on seedless default_rng() attribute a violation to call sites (they do not judge).
"""
from __future__ import annotations

import json
import math
import os
import random
import sys

import numpy as np

from simkit import gen, launch, pipe, ref
from simkit.kernel import EventLog, Forks, RunStats, Scratch, Violation, digest, f64_bits, h64, sub_rng

REAL_PIPE = ["batchie.cli.train_model / calculate_distance_matrix / calculate_scores / select_next_plate / evaluate_model / "
             "prepare_retrospective_simulation mains (in-process launches)",
             "SparseDrugCombo and SparseDrugComboInteraction Gibbs samplers, batchie.sampling.sample",
             "SizeScorer / RandomScorer / GaussianDBALScorer, MSEDistance, KPerSamplePlatePolicy, retrospective generators / smoothers / split",
             "HDF5 files on scratch"]
STUB_PIPE = ["nextflow: launches, chunk fan-out and file hand-over are driven by the simulator",
             "process entropy (global numpy / random state, OS entropy, seedless default_rng) is served from the simulator's stream"]

SPEC = {
    "C04": dict(engine="twinsim", level="fault_enumeration", runs=dict(quick=320, thorough=3000), chunk=2, run_timeout=600,
                rule="per run one twin pair: a full round (train x chains -> distance x chunks -> scores x chunks -> select) on a "
                     "partially observed screen, executed once on the clean file and once with every masked observation overwritten "
                     "by one of the poison kinds (finite junk / 0 / 1 / negative / NaN / inf / mixed); both shipped MCMC models, three "
                     "scorers, with and without a batch; plus training-set exactness and fail-stop probes; non-trivial if the screen "
                     "had masked cells and >= 1 artefact per stage was compared; distinct = distinct (model, scorer, poison kind, "
                     "chains, chunk counts, batch?) tuples",
                real=REAL_PIPE, stub=STUB_PIPE,
                assumptions=["twins share seeds, entropy stream and schedule; they differ only in masked bytes of the screen file",
                             "<= 40 rows, <= 2 chains x <= 3 samples, D <= 2"]),
    "C18": dict(engine="twinsim", level="exploration", runs=dict(quick=240, thorough=1500), chunk=2, run_timeout=600,
                rule="per run 5 randomised operations (function level: generators, smoothers, cover, splits, RandomScorer, DBAL triple "
                     "sub-sampling, score_chunk, policy filter, select_next_plate, sampling.sample on both real models; process level: "
                     "prepare / train / scores / select / evaluate CLIs with --seed), each executed as a twin pair that differs only in "
                     "process entropy and interleaved unrelated global draws; judged on output equality and on unchanged global state; "
                     "non-trivial if the operation consumed randomness (output differs under a different seed); distinct = distinct "
                     "(operation, parameters class) tuples",
                real=REAL_PIPE, stub=STUB_PIPE,
                assumptions=["tripwires (global numpy sampling calls, seedless default_rng) attribute, they do not judge",
                             "thorough tier additionally runs the second twin in a fresh interpreter under another PYTHONHASHSEED"]),
}

POISONS = ["junk", "zero", "one", "negative", "nan", "inf", "mixed"]


def preload(prop):
    launch.preload_cli()
    for m in ("train_model", "calculate_distance_matrix", "calculate_scores", "select_next_plate", "evaluate_model",
              "prepare_retrospective_simulation"):
        __import__("batchie.cli." + m)
    import batchie.models.sparse_combo_interaction  # noqa


# =========================================================================== workload


def gen_twin_screen(w, model, single_sample_plates=False):
    """Partially observed arity-2 screen.  For the interaction model every (sample, condition)
    gets an observed single-agent row so that its single-effect table covers all predictions."""
    n_samples = w.randint(1, 3)
    samples = [f"s{i}" for i in range(n_samples)]
    names = [f"d{i}" for i in range(w.randint(2, 4))]
    doses = [1.0, 2.0][: w.randint(1, 2)]
    conds = [(n, d) for n in names for d in doses]
    control = w.choice(["", "control"])
    rows = []
    if model == "sdci":
        for s in samples:
            for c in conds:
                tr = [[c[0], c[1]], [control, 0.0]] if w.random() < 0.5 else [[control, 0.0], [c[0], c[1]]]
                rows.append([s, tr, w.uniform(0.2, 0.95), "p00_single_" + (s if single_sample_plates else "all"), True])
    n_plates = w.randint(3, 6)
    n_obs = w.randint(1, n_plates - 2)
    for k in range(n_plates):
        s_fixed = w.choice(samples)
        for _ in range(w.randint(1, 5)):
            s = s_fixed if single_sample_plates else w.choice(samples)
            a = w.choice(conds)
            u = w.random()
            if u < 0.2:
                tr = [[a[0], a[1]], [control, 0.0]]
            elif u < 0.25:
                tr = [[control, 0.0], [control, 0.0]]
            else:
                b = w.choice([c for c in conds if c != a])
                tr = [[a[0], a[1]], [b[0], b[1]]]
            v = w.uniform(0.03, 0.97)
            if model == "sdc" and w.random() < 0.15:
                v = w.choice([0.0, 1.0, 0.004, 0.996, 1.3])  # outside the documented clipping range
            rows.append([s, tr, v, f"p{k + 1:02d}", k < n_obs])
    if not any(all(t[0] != control and t[1] > 0 for t in r[1]) for r in rows):
        rows[-1][1] = [[conds[0][0], conds[0][1]], [conds[-1][0], conds[-1][1]]] if len(conds) > 1 else rows[-1][1]
    return dict(control=control, arity=2, rows=rows)


def _gen_many_rows_c04(w, s, f):
    conds = [(f"d{i}", 1.0) for i in range(6)]
    rows = []
    for k in range(22):  # 22 unobserved plates of 3 000 wells
        smp = f"s{k % 3}"
        for _ in range(3000):
            a, b = w.sample(conds, 2)
            rows.append([smp, [[a[0], a[1]], [b[0], b[1]]], round(w.uniform(0.05, 0.95), 3), f"p{k:02d}", False])
    for k in range(3):  # the observed plates come last
        for _ in range(100):
            a, b = w.sample(conds, 2)
            rows.append([f"s{k}", [[a[0], a[1]], [b[0], b[1]]], round(w.uniform(0.05, 0.95), 3), f"z_init{k}", True])
    return dict(engine="twinsim", prop="C04", model=w.choice(["sdc", "sdci"]), screen=dict(control="", arity=2, rows=rows, layout="C"),
                many_rows=True, n_chains=1, n_samples=3, burnin=0, thin=1, D=1, seed=s.randrange(1000), dist_chunks=1, score_chunks=1,
                scorer="SizeScorer", batch=False, policy=None, poison=f.choice(POISONS), poison_seed=f.randrange(2**31),
                entropy=s.randrange(2**31), order_seed=s.randrange(2**31), failstop="masked-row", second_round=False, model_opts={})


def gen_plan(prop, run_seed, tier):
    F = Forks(run_seed)
    w, s, f = F.fork("workload"), F.fork("schedule"), F.fork("faults")
    if prop == "C04" and w.random() < 0.02:
        return _gen_many_rows_c04(w, s, f)
    if prop == "C04":
        model = w.choice(["sdc", "sdc", "sdci"])
        policy = s.choice([None, None, "kper"])
        scorer = s.choice(["SizeScorer", "RandomScorer", "GaussianDBALScorer", "GaussianDBALScorer"])
        n_chains, n_samples = s.randint(1, 2), s.choice([2, 3])
        if scorer == "GaussianDBALScorer" and n_chains * n_samples < 3:
            n_samples = 3  # the DBAL estimator needs three posterior samples
        return dict(engine="twinsim", prop=prop, model=model, screen=gen_twin_screen(w, model, single_sample_plates=policy == "kper"),
                    n_chains=n_chains, n_samples=n_samples, burnin=s.choice([0, 1, 2]), thin=1, D=s.randint(1, 2),
                    seed=s.randrange(1000), dist_chunks=s.randint(1, 3), score_chunks=s.randint(1, 3),
                    scorer=scorer,
                    batch=s.random() < 0.4, policy=policy, poison=f.choice(POISONS), poison_seed=f.randrange(2**31),
                    entropy=s.randrange(2**31), order_seed=s.randrange(2**31),
                    failstop=f.choice(["masked-row", "negative", "nan", "cli-negative", "cli-nan"]),
                    second_round=s.random() < 0.3, train_fault=(f.random() if f.random() < 0.3 else None),
                    # documented non-default model options (in-process rounds only; the CLI takes required arguments only)
                    model_opts=dict(mult_gamma_proc=s.random() < 0.7, local_shrinkage=s.random() < 0.7,
                                    **(dict(fake_intercept=s.random() < 0.6, individual_eff=s.random() < 0.7) if model == "sdc" else {})))
    kinds = ["f:pairwise", "f:permute", "f:segregate", "f:merge_min", "f:merge_top_bottom", "f:fixed_size", "f:optimal_size",
             "f:n_per_sample", "f:ensemble", "f:cover", "f:split", "f:random_holdout", "f:random_scorer", "f:dbal_subsample",
             "f:score_chunk", "f:policy", "f:select", "f:sample:sdc", "f:sample:sdci",
             "p:prepare", "p:prepare", "p:train:sdc", "p:train:sdci", "p:scores:RandomScorer", "p:scores:GaussianDBALScorer",
             "p:scores:SizeScorer", "p:select", "p:evaluate"]
    ops = []
    for _ in range(5):
        k = s.choice(kinds)
        ops.append(dict(kind=k, seed=s.choice([s.randrange(2**31), s.randrange(2**31), 0, 1, 12]), wseed=w.randrange(2**31),
                        eA=s.randrange(2**31), eB=s.randrange(2**31),
                        draws=s.choice([0, 1, 5, 50]), advance=s.choice([0, 0, 3]),
                        fault_u=(s.random() if s.random() < 0.6 else None)))
    return dict(engine="twinsim", prop=prop, steps=ops, fresh_twin=(s.random() < (0.3 if tier == "quick" else 0.25)), fresh_all=(tier == "thorough"))


# ============================================================================ execution


def execute(prop, plan):
    launch.quiet()
    log, stats, viol = EventLog(), RunStats(), []

    def violation(oid, trigger, msg):
        sig = f"{oid}/{trigger}"
        log.ev("violation", sig)
        if not any(v["signature"] == sig for v in viol):
            viol.append(Violation(prop, oid, sig, msg))

    np.seterr(all="ignore")
    with Scratch("twin") as scratch:
        if prop == "C04":
            _c04(plan, scratch, log, stats, violation)
        else:
            _c18(plan, scratch, log, stats, violation)
    return dict(digest=log.digest(), violations=viol, stats=stats.to_dict(), log_head=log.head)


# ------------------------------------------------------------------------------- C04

MODEL_NAME = dict(sdc="SparseDrugCombo", sdci="SparseDrugComboInteraction")


def _poison_file(path, kind, seed):
    """fault store.poison-masked: overwrite the masked cells of the stored observations."""
    import h5py

    rnd = random.Random(seed)
    with h5py.File(path, "r+") as f:
        obs = f["observations"][:]
        mask = f["observation_mask"][:].astype(bool)
        idx = np.where(~mask)[0]
        for i in idx:
            k = kind if kind != "mixed" else rnd.choice(POISONS[:-1])
            obs[i] = {"junk": rnd.uniform(-50, 50), "zero": 0.0, "one": 1.0, "negative": -abs(rnd.uniform(0.1, 3)),
                      "nan": float("nan"), "inf": rnd.choice([float("inf"), float("-inf")])}[k]
        f["observations"][...] = obs
    return len(idx)


class TrainCapture:
    """Records the arrays each model holds when sampling starts (seam: the module attribute
    batchie.sampling.sample used by the train_model process)."""

    def __init__(self):
        self.records = []
        self._orig = None

    def __enter__(self):
        import batchie.sampling as S

        self._orig = S.sample
        cap = self

        def sample(model, results, **kw):
            wm = model.wrapped_model
            y, cl, d1, d2 = wm.encode_obs()
            cap.records.append(dict(
                y=np.asarray(y, dtype=float).tolist(), cline=np.asarray(cl).tolist(), dd1=np.asarray(d1).tolist(),
                dd2=np.asarray(d2).tolist(), n_obs=int(model.n_obs()),
                lookup=sorted((int(k[0]), int(k[1]), float(v)) for k, v in getattr(model, "single_effect_lookup", {}).items())))
            return cap._orig(model=model, results=results, **kw)

        S.sample = sample
        return self

    def __exit__(self, *exc):
        import batchie.sampling as S

        S.sample = self._orig
        return False


def _round(plan, scratch, spath, tag, log, stats):
    """One full round through the real CLIs.  Returns the list of (stage, logical digest)."""
    out = []
    rnd = sub_rng(plan["order_seed"], "order")
    chain_order = list(range(plan["n_chains"]))
    rnd.shuffle(chain_order)
    cap = TrainCapture()
    tfiles = []
    with cap:
        for pos, ci in enumerate(chain_order):
            p = scratch.file(f"{tag}_thetas_{ci}.h5")

            def train():
                pipe.p_train(spath, p, model=MODEL_NAME[plan["model"]], model_params={"n_embedding_dimensions": plan["D"]},
                             n_chains=plan["n_chains"], chain_index=ci, n_samples=plan["n_samples"], n_burnin=plan["burnin"],
                             thin=plan["thin"], seed=plan["seed"], entropy=h64(plan["entropy"], "train", ci))

            tf = plan.get("train_fault")
            if tf is not None and pos == 0:
                # fault transient.model.step: one Gibbs step of this training process fails (a failed Cholesky).  The
                # process may die -- the operator then runs the step again -- or cope; whatever reaches sampling must
                # still be each observed experiment exactly once (judged below on every captured hand-over)
                n_steps = plan["burnin"] + plan["n_samples"] * plan["thin"]
                fpts = launch.FaultPoints({"model.step": 1 + int(tf * n_steps) % max(1, n_steps)})
                try:
                    with fpts:
                        train()
                except pipe.HarnessError:
                    raise
                except Exception:
                    if not fpts.fired:
                        raise
                    stats.probe("train_died_on_transient_fault")
                    train()
                if fpts.fired:
                    stats.fault("transient.model.step")
            else:
                train()
            tfiles.append(p)
            stats.steps += 1
            out.append((f"theta:{ci}", pipe.holder_file_digest(p)))
    for k, r in enumerate(cap.records):
        out.append((f"training-arrays:{k}", digest(r)))
    dorder = list(range(plan["dist_chunks"]))
    rnd.shuffle(dorder)
    dfiles = []
    for ci in dorder:
        p = scratch.file(f"{tag}_distance_matrix_chunk_{ci}.h5")
        pipe.p_distance(spath, tfiles, p, n_chunks=plan["dist_chunks"], chunk_index=ci, entropy=h64(plan["entropy"], "dist", ci))
        dfiles.append(p)
        stats.steps += 1
        out.append((f"distance:{ci}", pipe.dist_file_digest(p)))
    from batchie.data import Screen

    scr = Screen.load_h5(spath)
    unobs = [int(p.plate_id) for p in scr.plates if not p.is_observed]
    batch = unobs[:1] if plan["batch"] and len(unobs) >= 2 else []
    sorder = list(range(plan["score_chunks"]))
    rnd.shuffle(sorder)
    sfiles = []
    for ci in sorder:
        p = scratch.file(f"{tag}_score_chunk_{ci}.h5")
        pipe.p_scores(spath, tfiles, dfiles, p, n_chunks=plan["score_chunks"], chunk_index=ci, scorer=plan["scorer"],
                      batch=batch, seed=plan["seed"], entropy=h64(plan["entropy"], "score", ci))
        sfiles.append(p)
        stats.steps += 1
        out.append((f"scores:{ci}", pipe.score_file_digest(p)))
    sel = pipe.p_select(spath, sfiles, scratch.file(f"{tag}_selected_plate"), batch=batch, seed=plan["seed"],
                        policy="KPerSamplePlatePolicy" if plan["policy"] == "kper" else None,
                        policy_params={"k": 2} if plan["policy"] == "kper" else None, entropy=h64(plan["entropy"], "select"))
    stats.steps += 1
    out.append(("selected", sel))
    return out, cap.records


def _c04(plan, scratch, log, stats, violation):
    from batchie.data import ExperimentSpace, Screen

    screen = gen.make_screen(plan["screen"])
    rows = ref.content_rows(screen)
    ids = ref.row_ids(screen)
    if plan.get("many_rows"):
        # more experiments than a 16-bit row number holds, the observed ones LAST (as after unobserved.combine(observed)):
        # only the in-process round (training hand-over, distances, scores, selection on one Screen object) is affordable
        stats.probe("screen_with_more_than_65536_rows")
        _object_round(plan, rows, ids, stats, violation, log)
        return
    n_masked = sum(1 for r in rows if not r[4])
    clean = scratch.file("clean.h5")
    screen.save_h5(clean)
    poisoned = scratch.file("poisoned.h5")
    screen.save_h5(poisoned)
    k = _poison_file(poisoned, plan["poison"], plan["poison_seed"])
    stats.fault("store.poison-masked:" + plan["poison"], k)
    model = plan["model"]
    try:
        a, recs_a = _round(plan, scratch, clean, "A", log, stats)
    except pipe.HarnessError:
        raise
    except Exception as e:
        violation("C04.round-crashed", f"clean:{model}:{type(e).__name__}", f"a round on a clean partially observed screen raised {e!r}")
        return
    try:
        b, _ = _round(plan, scratch, poisoned, "B", log, stats)
    except pipe.HarnessError:
        raise
    except Exception as e:
        violation("C04.masked-value-influence", f"crash:{model}:{type(e).__name__}",
                  f"with masked cells set to {plan['poison']} the round raised {e!r}; the clean twin ran")
        return
    log.ev("twinA", a)
    stats.oracle_evals += len(a)
    for (sa, da), (sb, db) in zip(a, b):
        if sa != sb or da != db:
            stage = sa.split(":")[0]
            violation("C04.masked-value-influence", f"{stage}:{model}",
                      f"artefact {sa} differs between twins that differ only in masked observation values (poison {plan['poison']}, "
                      f"scorer {plan['scorer']})")
            break
    # ---- second round: the selected plate is revealed in both twins (twin B's cells of that plate are
    # healed first, so the twins still differ only in cells that are masked at every compared point)
    sel_a = [d for s_, d in a if s_ == "selected"][0]
    if plan.get("second_round") and not viol_seen(violation) and sel_a is not None and sel_a >= 0 and a == b:
        import h5py

        with h5py.File(clean, "r") as f:
            true_obs = f["observations"][:]
            pids = f["plate_ids"][:]
        with h5py.File(poisoned, "r+") as f:
            o = f["observations"][:]
            o[pids == sel_a] = true_obs[pids == sel_a]
            f["observations"][...] = o
        stats.probe("second_round_with_heal")
        nxt = {}
        try:
            for tag, src in (("A2", clean), ("B2", poisoned)):
                adv = scratch.file(f"{tag}_advanced_screen.h5")
                pipe.p_reveal(src, adv, [sel_a], entropy=h64(plan["entropy"], "reveal"))
                nxt[tag] = adv
            a2, recs_a2 = _round(plan, scratch, nxt["A2"], "A2", log, stats)
            b2, _ = _round(plan, scratch, nxt["B2"], "B2", log, stats)
        except pipe.HarnessError:
            raise
        except Exception as e:
            log.ev("second-round-raised", type(e).__name__)
            a2 = b2 = None
        if a2 is not None:
            stats.oracle_evals += len(a2)
            for (sa, da), (sb, db) in zip(a2, b2):
                if sa != sb or da != db:
                    violation("C04.masked-value-influence", f"{sa.split(':')[0]}:{model}:round2",
                              f"second round: artefact {sa} differs between twins that differ only in still-masked values (poison {plan['poison']})")
                    break
            scr2 = Screen.load_h5(nxt["A2"])
            _training_set_oracle(plan, ref.content_rows(scr2), ref.row_ids(scr2), recs_a2, stats, violation)
    # ---- (b) training-set exactness against the reference rows
    _training_set_oracle(plan, rows, ids, recs_a, stats, violation)
    # ---- (b') the same round on ONE long-lived Screen object after a history of view operations
    if plan.get("object_round", True):
        _object_round(plan, rows, ids, stats, violation, log)
    # ---- (c) fail-stop
    _failstop(plan, scratch, screen, rows, stats, violation, log)
    if n_masked > 0:
        stats.key(model, plan["scorer"], plan["poison"], plan["n_chains"], plan["dist_chunks"], plan["score_chunks"], plan["batch"])


def viol_seen(violation):
    return False


def _object_round(plan, rows, ids, stats, violation, log):
    """In-process twin: a driver keeps one Screen object alive, builds views of it (observed part plus
    batch plates, unions, unique filters ...) and then trains / scores / selects on that same object.
    Twins differ only in masked values; view operations must not change what counts as observed."""
    import batchie.models.sparse_combo as M1
    import batchie.models.sparse_combo_interaction as M2
    from batchie import sampling
    from batchie.core import ThetaHolder
    from batchie.data import ExperimentSpace, ScreenSubset, filter_dataset_to_unique_treatments
    from batchie.distance.mse import MSEDistance
    from batchie.distance_calculation import calculate_pairwise_distance_matrix_on_predictions
    from batchie.scoring.gaussian_dbal import GaussianDBALScorer
    from batchie.scoring.main import score_chunk, select_next_plate
    from batchie.scoring.size import SizeScorer

    model_kind = plan["model"]
    rnd_ops = random.Random(h64(plan["order_seed"], "view-ops"))
    op_list = [rnd_ops.choice(["observed+plates", "combine", "unique", "plates", "invert", "subsub", "observed+plates"]) for _ in range(rnd_ops.randint(1, 4))]
    results = []
    for twin, kind in (("A", None), ("B", plan["poison"])):
        spec = json.loads(json.dumps(plan["screen"]))
        if kind:
            prnd = random.Random(plan["poison_seed"])
            for r in spec["rows"]:
                if not r[4]:
                    k2 = kind if kind != "mixed" else prnd.choice(POISONS[:-1])
                    r[2] = {"junk": prnd.uniform(-50, 50), "zero": 0.0, "one": 1.0, "negative": -abs(prnd.uniform(0.1, 3)),
                            "nan": float("nan"), "inf": prnd.choice([float("inf"), float("-inf")])}[k2]
        scr = gen.make_screen(spec)
        mask0 = np.asarray(scr.observation_mask).copy()
        vrnd = random.Random(h64(plan["order_seed"], "view-choices"))
        unobs = [int(p.plate_id) for p in scr.plates if not p.is_observed]
        try:
            for op in op_list:
                if op == "observed+plates" and unobs:
                    ScreenSubset.concat([scr.subset_observed()] + [scr.get_plate(p) for p in vrnd.sample(unobs, vrnd.randint(1, len(unobs)))])
                elif op == "combine" and unobs:
                    scr.subset_observed().combine(scr.get_plate(vrnd.choice(unobs)))
                elif op == "unique":
                    filter_dataset_to_unique_treatments(scr.subset_observed())
                elif op == "plates":
                    [p.size for p in scr.plates]
                elif op == "invert":
                    scr.subset_observed().invert()
                elif op == "subsub":
                    so = scr.subset_observed()
                    so.subset(np.array([vrnd.random() < 0.5 for _ in range(so.size)], dtype=bool))
        except Exception as e:
            log.ev("view-op-raised", type(e).__name__)
            return
        stats.steps += len(op_list)
        if not np.array_equal(np.asarray(scr.observation_mask), mask0):
            violation("C04.mask-changed-by-view", f"{'+'.join(sorted(set(op_list)))}",
                      f"building views of the screen ({op_list}) changed its observation mask: masked values would now reach the model")
            return
        launch.set_entropy(plan["entropy"])
        es = ExperimentSpace.from_screen(scr)
        try:
            if model_kind == "sdc":
                m = M1.SparseDrugCombo(experiment_space=es, n_embedding_dimensions=plan["D"], **plan.get("model_opts", {}))
            else:
                m = M2.SparseDrugComboInteraction(experiment_space=es, n_embedding_dimensions=plan["D"], **plan.get("model_opts", {}))
            m.add_observations(scr.subset_observed())
            y, cl, d1, d2 = m.wrapped_model.encode_obs()
            rec = dict(y=np.asarray(y, dtype=float).tolist(), cline=np.asarray(cl).tolist(), dd1=np.asarray(d1).tolist(),
                       dd2=np.asarray(d2).tolist(), n_obs=int(m.n_obs()),
                       lookup=sorted((int(k[0]), int(k[1]), float(v)) for k, v in getattr(m, "single_effect_lookup", {}).items()))
            holder = ThetaHolder(n_thetas=3)
            sampling.sample(model=m, results=holder, seed=plan["seed"], n_chains=1, chain_index=0, n_burnin=1, thin=1)
            dm = calculate_pairwise_distance_matrix_on_predictions(thetas=holder, distance_metric=MSEDistance(), data=scr, chunk_index=0, n_chunks=1)
            batch = unobs[:1] if plan["batch"] and len(unobs) >= 2 else None
            scorer = SizeScorer() if plan["scorer"] == "SizeScorer" else GaussianDBALScorer()
            sh = score_chunk(scorer=scorer, thetas=holder, screen=scr, distance_matrix=dm, rng=np.random.default_rng(plan["seed"]),
                             n_chunks=1, chunk_index=0, batch_plate_ids=batch)
            pl = select_next_plate(scores=sh, screen=scr, policy=None, batch_plate_ids=batch or [], rng=np.random.default_rng(1))
        except Exception as e:
            if twin == "A":
                log.ev("object-round-raised", type(e).__name__)
                return
            violation("C04.masked-value-influence", f"object-round-crash:{model_kind}:{type(e).__name__}",
                      f"in-process round on one Screen object: with masked cells set to {plan['poison']} it raised {e!r}; the clean twin ran")
            return
        stats.steps += 4
        results.append(dict(train=digest(rec), thetas=digest([pipe.theta_digest(t) for t in holder.thetas]),
                            dist=digest(dm.values[: dm.current_index]), scores=digest([sh.plate_ids.tolist(), sh.scores.tolist()]),
                            selected=None if pl is None else int(pl.plate_id)))
        if twin == "A":
            _training_set_oracle(plan, rows, ids, [rec], stats, violation)
    stats.oracle_evals += 5
    stats.probe("object_round_compared")
    for k in ("train", "thetas", "dist", "scores", "selected"):
        if results[0][k] != results[1][k]:
            violation("C04.masked-value-influence", f"object-round:{k}:{model_kind}",
                      f"in-process round on one Screen object after view operations {op_list}: {k} differs between twins that differ only in masked values")
            break


def _logit32(x):
    from scipy.special import logit

    return float(logit(np.float32(x)))


def _training_set_oracle(plan, rows, ids, recs, stats, violation):
    model = plan["model"]
    mname = MODEL_NAME[model]
    for rec in recs:
        stats.oracle_evals += 1
        got = ref.multiset([(round(y, 5) if math.isfinite(y) else str(y), c, a, b) for y, c, a, b in
                            zip(rec["y"], rec["cline"], rec["dd1"], rec["dd2"])])
        want_list = []
        for r, (sid, tids, _) in zip(rows, ids):
            if not r[4]:
                continue
            obs = float(np.array([r[2]], dtype=np.uint64).view(np.float64)[0])
            if model == "sdc":
                y = _logit32(np.clip(np.float32(obs), 0.01, 0.99))
            else:
                if any(t == -1 for t in tids):
                    continue
                y = _logit32(obs)
            want_list.append((round(y, 5), sid, tids[0], tids[1]))
        want = ref.multiset(want_list)
        if got != want:
            extra, missing = ref.multiset_sub(got, want)
            violation("C04.trainset", mname,
                      f"{mname} trains on {sum(got.values())} rows, the documented training set has {sum(want.values())}: "
                      f"unexpected {list(extra.items())[:3]}, missing {list(missing.items())[:3]}")
            return
        if rec["n_obs"] != len(want_list):
            violation("C04.trainset", mname + ":n_obs", f"n_obs() = {rec['n_obs']}, training set has {len(want_list)} rows")
            return
        if model == "sdci":
            # single-effect table: mean of the sample's observed single-agent values; control -> 1
            acc = {}
            samples, treats = set(), set()
            for r, (sid, tids, _) in zip(rows, ids):
                if not r[4]:
                    continue
                samples.add(sid)
                treats.update(tids)
                if sum(1 for t in tids if t == -1) == 1:
                    t = [x for x in tids if x != -1][0]
                    obs = float(np.array([r[2]], dtype=np.uint64).view(np.float64)[0])
                    acc.setdefault((sid, t), []).append(obs)
            want_l = {}
            for s in samples:
                for t in treats:
                    if t == -1:
                        want_l[(s, -1)] = 1.0
                    elif (s, t) in acc:
                        want_l[(s, t)] = sum(acc[(s, t)]) / len(acc[(s, t)])
            got_l = {(a, b): v for a, b, v in rec["lookup"]}
            bad = [k for k in set(want_l) | set(got_l) if k not in want_l or k not in got_l or abs(want_l[k] - got_l[k]) > 1e-12]
            if bad:
                violation("C04.single-effect-table", mname,
                          f"single-effect table differs from 'mean of observed single-agent values' at {sorted(bad)[:3]}: "
                          f"got {[got_l.get(k) for k in sorted(bad)[:3]]} want {[want_l.get(k) for k in sorted(bad)[:3]]}")
                return


def _failstop(plan, scratch, screen, rows, stats, violation, log):
    from batchie.data import ExperimentSpace, Screen
    import batchie.models.sparse_combo as M1
    import batchie.models.sparse_combo_interaction as M2

    model = plan["model"]
    mname = MODEL_NAME[model]
    kind = plan["failstop"]
    es = ExperimentSpace.from_screen(screen)

    def fresh_model():
        if model == "sdc":
            return M1.SparseDrugCombo(experiment_space=es, n_embedding_dimensions=plan["D"], **plan.get("model_opts", {}))
        return M2.SparseDrugComboInteraction(experiment_space=es, n_embedding_dimensions=plan["D"], **plan.get("model_opts", {}))

    stats.oracle_evals += 1
    if kind == "masked-row":
        if all(r[4] for r in rows):
            return
        # the input that still contains masked rows comes in every shape the data model can produce: the whole
        # screen, a row selection, one unobserved plate, and Plate-typed UNIONS (combine / concat / invert return
        # multi-plate objects typed Plate) whose first row may be observed or masked
        frnd = random.Random(plan["poison_seed"])
        plates = list(screen.plates)
        obs_pl = [q for q in plates if q.is_observed]
        un_pl = [q for q in plates if not q.is_observed]
        forms = ["subset-all", "screen", "selection"]
        if un_pl:
            forms += ["unobserved-plate", "invert"]
        if un_pl and obs_pl:
            forms += ["combine-observed-first", "combine-masked-first", "concat-shuffled", "observed-view-plus-plate"] * 2
        form = frnd.choice(forms)
        try:
            if form == "subset-all":
                data = screen.subset(np.ones(len(rows), dtype=bool))
            elif form == "screen":
                data = screen
            elif form == "selection":
                sel = np.array([frnd.random() < 0.5 for _ in rows], dtype=bool)
                masked = [i for i, r in enumerate(rows) if not r[4]]
                sel[frnd.choice(masked)] = True
                data = screen.subset(sel)
            elif form == "unobserved-plate":
                data = frnd.choice(un_pl)
            elif form == "invert":
                cands = [q for q in plates if q is not un_pl[0]] or plates
                data = frnd.choice(cands).invert()
            elif form == "combine-observed-first":
                data = frnd.choice(obs_pl).combine(frnd.choice(un_pl))
            elif form == "combine-masked-first":
                data = frnd.choice(un_pl).combine(frnd.choice(obs_pl))
            elif form == "concat-shuffled":
                parts = [frnd.choice(obs_pl), frnd.choice(un_pl)] + frnd.sample(plates, frnd.randint(0, min(2, len(plates))))
                frnd.shuffle(parts)
                data = type(parts[0]).concat(parts)
            else:
                data = screen.subset_observed().combine(frnd.choice(un_pl))
        except Exception as e:
            raise pipe.HarnessError(f"building the {form} input failed: {e!r}")
        if bool(np.all(np.asarray(data.observation_mask))):
            return  # (invert of the only unobserved plate etc.) nothing masked in it
        stats.probe("masked_input_form:" + form)
        try:
            fresh_model().add_observations(data)
        except ValueError:
            stats.probe("masked_row_refused")
            return
        except Exception as e:
            violation("C04.refuse", f"{mname}:masked-row:{type(e).__name__}", f"{mname} given masked rows ({form}) raised {e!r} (not a clean refusal)")
            return
        violation("C04.refuse", f"{mname}:masked-row", f"{mname}.add_observations accepted a {form} input that still contains masked rows")
        return
    # store.poison-observed: an observed cell is negative / NaN
    obs_idx = [i for i, r in enumerate(rows) if r[4]]
    if model == "sdci":
        # pick a cell the model documents using: a combination row if there is one
        ids = ref.row_ids(screen)
        combo = [i for i in obs_idx if all(t != -1 for t in ids[i][1])]
        obs_idx = combo or obs_idx
    if not obs_idx:
        return
    i = obs_idx[plan["poison_seed"] % len(obs_idx)]
    # negative means below zero, however slightly: values that vanish in single precision or are subnormal included
    value = [-0.25, -1e-60, -5e-324, -1e-300, -1e-9, -3.0, -2.5e-46][plan["poison_seed"] // 7 % 7] if "negative" in kind else float("nan")
    stats.fault("store.poison-observed:" + ("negative" if "negative" in kind else "nan"))
    if kind.startswith("cli-"):
        import h5py

        p = scratch.file("observed_poison.h5")
        screen.save_h5(p)
        with h5py.File(p, "r+") as f:
            o = f["observations"][:]
            o[i] = value
            f["observations"][...] = o
        out = scratch.file("thetas_poison.h5")
        try:
            pipe.p_train(p, out, model=mname, model_params={"n_embedding_dimensions": plan["D"]}, n_chains=1, chain_index=0,
                         n_samples=1, n_burnin=0, thin=1, seed=1, entropy=3)
        except pipe.HarnessError:
            raise
        except Exception:
            stats.probe("poisoned_observed_refused_cli")
            return
        violation("C04.refuse", f"{mname}:{kind.split('-')[1]}",
                  f"train_model produced posterior samples from a screen whose observed value at row {i} is {value}")
        return
    spec = json.loads(json.dumps(plan["screen"]))
    spec["rows"][i][2] = value
    bad = gen.make_screen(spec, treatment_mapping=screen.treatment_mapping, sample_mapping=screen.sample_mapping)
    try:
        fresh_model().add_observations(bad.subset_observed())
    except ValueError:
        stats.probe("poisoned_observed_refused")
        return
    except Exception as e:
        violation("C04.refuse", f"{mname}:{kind}:{type(e).__name__}", f"{mname} given an observed {value} raised {e!r} (not a clean refusal)")
        return
    violation("C04.refuse", f"{mname}:{kind}", f"{mname}.add_observations accepted an observed value of {value} (row {i})")


# ------------------------------------------------------------------------------- C18

GLOBAL_FUNCS = ["normal", "gamma", "random", "rand", "randn", "randint", "uniform", "choice", "permutation", "shuffle",
                "standard_normal", "beta", "binomial", "poisson", "exponential", "multivariate_normal", "random_sample", "sample"]


def _batchie_site():
    f = sys._getframe(2)
    while f is not None:
        fn = f.f_code.co_filename
        if "/batchie/" in fn and "/verif/" not in fn:
            parts = fn.split("/batchie/")[-1]
            return parts
        f = f.f_back
    return None


class Tripwires:
    """Log calls of numpy's global sampling functions, the stdlib's global functions and seedless
    default_rng() made from batchie code.  Attribution only."""

    def __init__(self):
        self.sites = set()
        self._saved = {}

    def __enter__(self):
        tw = self
        for name in GLOBAL_FUNCS:
            if hasattr(np.random, name):
                orig = getattr(np.random, name)
                self._saved[("np", name)] = orig

                def mk(orig=orig, name=name):
                    def wrapper(*a, **k):
                        s = _batchie_site()
                        if s:
                            tw.sites.add(f"global-numpy@{s}")
                        return orig(*a, **k)

                    return wrapper

                setattr(np.random, name, mk())
        orig_rng = np.random.default_rng
        self._saved[("np", "default_rng")] = orig_rng

        def default_rng(seed=None):
            if seed is None:
                s = _batchie_site()
                if s:
                    tw.sites.add(f"seedless-default_rng@{s}")
            return orig_rng(seed)

        np.random.default_rng = default_rng
        return self

    def __exit__(self, *exc):
        for (mod, name), orig in self._saved.items():
            setattr(np.random, name, orig)
        return False


def _small_holder(n, screen, seed, D=2):
    rng = np.random.default_rng(seed)
    n_samp, n_treat = pipe.space_sizes(screen)
    return [pipe.make_sdc_theta(rng, n_samp, n_treat, D, scale=0.7, precision=float(10 ** rng.uniform(-1, 1))) for _ in range(n)]


def _run_op(op, scratch, seed_override=None):
    """Execute one randomised operation; return a logical digest of its output."""
    import batchie.retrospective as R
    from batchie import sampling
    from batchie.core import ThetaHolder
    from batchie.data import ExperimentSpace, Screen
    from batchie.distance.mse import MSEDistance
    from batchie.distance_calculation import calculate_pairwise_distance_matrix_on_predictions
    from batchie.policies.k_per_sample import KPerSamplePlatePolicy
    from batchie.scoring.gaussian_dbal import GaussianDBALScorer
    from batchie.scoring.main import ChunkedScoresHolder, score_chunk, select_next_plate
    from batchie.scoring.rand import RandomScorer
    from engines import prepsim

    kind = op["kind"]
    seed = op["seed"] if seed_override is None else seed_override
    w = random.Random(op["wseed"])

    def given_rng():
        g = np.random.default_rng(seed)
        for _ in range(op.get("advance", 0)):
            g.random()
        return g

    if kind.startswith("f:") and kind[2:] in ("pairwise", "permute", "segregate", "merge_min", "merge_top_bottom", "fixed_size",
                                                "optimal_size", "n_per_sample", "ensemble", "cover", "split", "random_holdout"):
        name = kind[2:]
        spec = prepsim._gen_prep_screen(w, single_sample_plates=True)
        if name == "cover":
            for r in spec["rows"]:
                r[4] = True
        else:
            # mostly unobserved so that the operation has work to do
            for r in spec["rows"]:
                r[4] = r[3] == "pl0"
        scr = gen.make_screen(spec)
        st = prepsim._gen_step(w, name)
        st["seed"], st["advance"] = seed, op.get("advance", 0)
        out = prepsim._apply(st, scr)
        if isinstance(out, tuple):
            return digest([ref.content_rows(o) for o in out])
        return digest(ref.content_rows(out))

    if kind in ("f:random_scorer", "f:dbal_subsample", "f:score_chunk", "f:policy", "f:select"):
        spec = pipe.gen_pipeline_screen(w, n_plates=w.randint(3, 6), single_sample_plates=True, observed_plates=1)
        scr = gen.make_screen(spec)
        thetas = _small_holder(6, scr, op["wseed"])
        holder = ThetaHolder(n_thetas=len(thetas))
        for t in thetas:
            holder.add_theta(t)
        dm = calculate_pairwise_distance_matrix_on_predictions(thetas=holder, distance_metric=MSEDistance(), data=scr,
                                                               chunk_index=0, n_chunks=1)
        plates = {int(p.plate_id): p for p in scr.plates if not p.is_observed}
        if kind == "f:random_scorer":
            return digest(sorted(RandomScorer().score(plates, dm, holder, given_rng(), False).items()))
        if kind == "f:dbal_subsample":
            sc = GaussianDBALScorer(max_chunk=2, max_triples=4)  # C(6,3)=20 > 4: triples are sub-sampled
            return digest(sorted((k, float(v)) for k, v in sc.score(plates, dm, holder, given_rng(), False).items()))
        if kind == "f:score_chunk":
            h = score_chunk(scorer=w.choice([RandomScorer(), GaussianDBALScorer(max_triples=5)]), thetas=holder, screen=scr,
                            distance_matrix=dm, rng=given_rng(), n_chunks=1, chunk_index=0)
            return digest([h.plate_ids.tolist(), h.scores.tolist()])
        unobs = [p for p in scr.plates if not p.is_observed]
        if kind == "f:policy":
            res = KPerSamplePlatePolicy(k=w.randint(1, 2)).filter_eligible_plates(unobs[:1], unobs[1:], given_rng())
            return digest([int(p.plate_id) for p in res])
        sh = ChunkedScoresHolder(len(unobs))
        for p in unobs:
            sh.add_score(int(p.plate_id), 1.0)  # all tied
        pl = select_next_plate(scores=sh, screen=scr, policy=KPerSamplePlatePolicy(k=1), batch_plate_ids=[], rng=given_rng())
        return digest(None if pl is None else int(pl.plate_id))

    if kind.startswith("f:sample:"):
        model = kind.split(":")[2]
        spec = gen_twin_screen(w, model)
        scr = gen.make_screen(spec)
        es = ExperimentSpace.from_screen(scr)
        if model == "sdc":
            from batchie.models.sparse_combo import SparseDrugCombo as Mdl
        else:
            from batchie.models.sparse_combo_interaction import SparseDrugComboInteraction as Mdl
        # documented, non-default model options are inputs like any other: every combination of the switches
        opts = dict(mult_gamma_proc=w.random() < 0.7, local_shrinkage=w.random() < 0.7,
                    a0=w.choice([1.1, 1.1, 2.0]), b0=w.choice([1.1, 1.1, 0.5]))
        if model == "sdc":
            opts.update(fake_intercept=w.random() < 0.6, individual_eff=w.random() < 0.7)
        m = Mdl(experiment_space=es, n_embedding_dimensions=w.choice([2, 2, 1, 3]), **opts)
        m.add_observations(scr.subset_observed())
        h = ThetaHolder(n_thetas=2)
        sampling.sample(model=m, results=h, seed=seed % (2**32), n_chains=2, chain_index=w.randrange(2),
                        n_burnin=w.choice([1, 0, 0, 2]), thin=w.choice([1, 1, 2]))
        return digest([pipe.theta_digest(t) for t in h.thetas])

    # ---- process level
    if kind == "p:prepare":
        spec = prepsim._gen_prep_screen(w, single_sample_plates=True)
        for r in spec["rows"]:
            r[4] = True
        for r in spec["rows"]:  # reveal refuses all-zero plates; keep values positive
            r[2] = max(r[2], 0.05)
        scr = gen.make_screen(spec)
        src = scratch.file("in.h5")
        scr.save_h5(src)
        args = []
        g = w.choice([None, "PlatePermutationPlateGenerator", "SampleSegregatingPermutationPlateGenerator", "PairwisePlateGenerator"])
        if g:
            args += ["--plate-generator", g]
            if g.startswith("SampleSeg"):
                args += ["--plate-generator-param", f"max_plate_size={w.randint(2, 4)}"]
            if g.startswith("Pairwise"):
                args += ["--plate-generator-param", f"subset_size={w.randint(1, 2)}", "--plate-generator-param", "anchor_size=0"]
        if w.random() < 0.5:
            args += ["--initial-plate-generator", "SparseCoverPlateGenerator", "--initial-plate-generator-param",
                     f"reveal_single_treatment_experiments={w.choice(['true', 'false'])}"]
        sm = w.choice([None, "OptimalSizeSmoother", "FixedSizeSmoother"])
        if sm:
            args += ["--plate-smoother", sm]
            if sm == "FixedSizeSmoother":
                args += ["--plate-smoother-param", "plate_size=2"]
        args += ["--holdout-fraction", w.choice(["0.25", "0.5"])]
        a, b = scratch.file("training.screen.h5"), scratch.file("test.screen.h5")
        pipe.p_prepare(src, a, b, args=args, seed=seed % 100000, entropy=None)
        return digest([pipe.screen_file_digest(a), _safe_screen_digest(b)])
    if kind.startswith("p:train:"):
        model = kind.split(":")[2]
        scr = gen.make_screen(gen_twin_screen(w, model))
        src = scratch.file("screen.h5")
        scr.save_h5(src)
        out = scratch.file("thetas.h5")
        pipe.p_train(src, out, model=MODEL_NAME[model], model_params={"n_embedding_dimensions": 2}, n_chains=2,
                     chain_index=w.randrange(2), n_samples=2, n_burnin=w.choice([1, 0, 0, 2]), thin=w.choice([1, 1, 2]),
                     seed=seed % 100000, entropy=None)
        return pipe.holder_file_digest(out)
    # the remaining process-level operations need thetas + distances on files
    spec = pipe.gen_pipeline_screen(w, n_plates=w.randint(3, 5), single_sample_plates=True, observed_plates=1)
    scr = gen.make_screen(spec)
    src = scratch.file("screen.h5")
    scr.save_h5(src)
    scorer = kind.split(":")[2] if kind.startswith("p:scores:") else "RandomScorer"
    n_th = 34 if scorer == "GaussianDBALScorer" else 4  # C(34,3) = 5984 > 5000: the CLI's default budget sub-samples
    thetas = _small_holder(n_th, scr, op["wseed"], D=1)
    tpath = pipe.save_holder(thetas, scratch.file("thetas.h5"))
    holder = ThetaHolder.load_h5(tpath)
    if kind == "p:evaluate":
        for r in spec["rows"]:
            r[4] = True
        test = gen.make_screen(spec, treatment_mapping=scr.treatment_mapping, sample_mapping=scr.sample_mapping)
        tp = scratch.file("test.h5")
        test.save_h5(tp)
        out = scratch.file("model_evaluation.h5")
        pipe.p_evaluate(tp, [tpath], out, seed=seed % 100000, entropy=None)
        from batchie.models.main import ModelEvaluation

        me = ModelEvaluation.load_h5(out)
        return digest([np.asarray(me.predictions), np.asarray(me.chain_ids)])
    dm = calculate_pairwise_distance_matrix_on_predictions(thetas=holder, distance_metric=MSEDistance(), data=scr,
                                                           chunk_index=0, n_chunks=1)
    dpath = scratch.file("distance_matrix_chunk_0.h5")
    dm.save(dpath)
    spath = scratch.file("score_chunk_0.h5")
    if kind.startswith("p:scores:"):
        pipe.p_scores(src, [tpath], [dpath], spath, n_chunks=1, chunk_index=0, scorer=scorer, seed=seed % 100000, entropy=None)
        return pipe.score_file_digest(spath)
    # p:select with tied scores and a policy
    unobs = [int(p.plate_id) for p in scr.plates if not p.is_observed]
    sh = ChunkedScoresHolder(len(unobs))
    for p in unobs:
        sh.add_score(p, 2.0)
    sh.save_h5(spath)
    sel = pipe.p_select(src, [spath], scratch.file("selected_plate"), policy="KPerSamplePlatePolicy", policy_params={"k": 1},
                        seed=seed % 100000, entropy=None)
    return digest(sel)


def _safe_screen_digest(path):
    try:
        return pipe.screen_file_digest(path)
    except Exception as e:  # zero-row hold-out files do not load (C02 known finding); compare by size then
        return ("unloadable", type(e).__name__, os.path.getsize(path) > 0)


def _twin(op, scratch, entropy, draws, seed_override=None, faults=None):
    launch.set_entropy(entropy)
    for _ in range(draws):
        np.random.random()
        random.random()
    g0 = launch.global_state_digest()
    t0 = launch.SIM_THREADS["tasks"]
    _preimport(op)  # module import (torch, h5py, tqdm's monitor thread ...) is not part of the operation
    # ... and its own wall clock, process id and directory listing order
    with launch.SimEnv(entropy) as env, Tripwires() as tw, (faults or launch.FaultPoints()) as fp:
        out = _run_op(op, scratch, seed_override=seed_override)
    _twin.last_fault_census = dict(fp.seen)
    g1 = launch.global_state_digest()
    sites = set(tw.sites)
    for what, n in sorted(env.reads.items()):
        sites.add(f"reads-{what}({n})")
    if launch.SIM_THREADS["tasks"] > t0:
        # the operation handed work to a thread pool: the simulator ran those tasks in this twin's own seeded order
        sites.add(f"thread-pool-tasks-in-seeded-order({launch.SIM_THREADS['tasks'] - t0})")
    return out, g0 == g1, sites


def _preimport(op):
    import importlib

    for m in ("batchie.retrospective", "batchie.sampling", "batchie.core", "batchie.data", "batchie.distance.mse",
              "batchie.distance_calculation", "batchie.policies.k_per_sample", "batchie.scoring.gaussian_dbal",
              "batchie.scoring.main", "batchie.scoring.rand", "batchie.scoring.size", "batchie.models.sparse_combo",
              "batchie.models.sparse_combo_interaction", "batchie.models.main", "batchie.introspection", "engines.prepsim"):
        try:
            importlib.import_module(m)
        except ImportError:
            pass
    if op["kind"].startswith("p:"):
        for m in ("prepare_retrospective_simulation", "train_model", "calculate_scores", "calculate_distance_matrix",
                  "select_next_plate", "reveal_plate", "evaluate_model", "extract_screen_metadata"):
            try:
                importlib.import_module("batchie.cli." + m)
            except ImportError:
                pass


def _purge_batchie_modules():
    """Simulated process boundary for module-level state: every batchie module is dropped and
    re-imported on next use, so caches kept in module globals die as they would with the process."""
    for k in [k for k in sys.modules if k == "batchie" or k.startswith("batchie.")]:
        del sys.modules[k]


def _c18(plan, scratch, log, stats, violation):
    for i, op in enumerate(plan["steps"]):
        label = op["kind"]
        stats.steps += 1
        # history: the same operation under ANOTHER seed runs first in this process ...
        _purge_batchie_modules()
        outP = None
        try:
            outP, _, _ = _twin(op, scratch, op["eA"], 0, seed_override=op["seed"] + 1)
        except pipe.HarnessError:
            raise
        except Exception:
            pass
        try:
            outA, keptA, sitesA = _twin(op, scratch, op["eA"], 0)
        except pipe.HarnessError:
            raise
        except Exception as e:
            log.ev("op-raised", i, label, type(e).__name__)
            stats.probe("op_raised:" + label)
            continue
        try:
            outB, keptB, sitesB = _twin(op, scratch, op["eB"], op["draws"])
        except pipe.HarnessError:
            raise
        except Exception as e:
            violation("C18.twin-output", f"{label}|raised:{type(e).__name__}", f"{label}: the second twin raised {e!r}, the first returned")
            continue
        stats.fault("entropy.reseed")
        stats.oracle_evals += 2
        sites = "+".join(sorted(sitesA | sitesB)) or "no-tripwire"
        log.ev("twin", i, label, outA == outB, keptA, keptB, sorted(sitesA | sitesB))
        if outA != outB:
            violation("C18.twin-output", f"{label}|{sites}",
                      f"{label}: identical inputs and seed {op['seed']} but different output under different process entropy "
                      f"({op['draws']} unrelated global draws interleaved); randomness drawn at: {sites}")
        if not (keptA and keptB):
            violation("C18.global-state-perturbed", f"{label}|{sites}",
                      f"{label}: the process-global random state changed during the operation; global draws at: {sites}")
        # ... and the same operation in a process without that history (fresh module state) must agree
        _purge_batchie_modules()
        try:
            outF, _, _ = _twin(op, scratch, op["eA"], 0)
            stats.oracle_evals += 1
            stats.fault("process.fresh-module-state")
            log.ev("fresh-state", i, label, outF == outA)
            if outF != outA:
                violation("C18.twin-output", f"{label}|process-state-dependence",
                          f"{label}: with identical inputs and seed {op['seed']} the output depends on what ran earlier in the same process "
                          f"(the same operation under seed {op['seed'] + 1}); a fresh process gives another result")
        except pipe.HarnessError:
            raise
        except Exception as e:
            violation("C18.twin-output", f"{label}|fresh-state-raised:{type(e).__name__}", f"{label}: raised {e!r} in a fresh module state")
        # ... and a transient fault inside the step (an HDF5 open that fails once, a Gibbs step whose Cholesky fails) may
        # make it fail, but a step that reports success must have produced what the undisturbed step produces
        census = getattr(_twin, "last_fault_census", {})
        kinds_f = sorted(k for k in ("h5.open", "model.step") if census.get(k))
        if kinds_f and op.get("fault_u") is not None:
            kf = kinds_f[int(op["fault_u"] * 7919) % len(kinds_f)]
            at = 1 + int(op["fault_u"] * census[kf]) % census[kf]
            _purge_batchie_modules()
            fpts = launch.FaultPoints({kf: at})
            try:
                outT, _, _ = _twin(op, scratch, op["eA"], 0, faults=fpts)
            except pipe.HarnessError:
                raise
            except BaseException as e:  # noqa: BLE001 - the step failed: allowed
                if isinstance(e, (KeyboardInterrupt, SystemExit, MemoryError)) and not fpts.fired:
                    raise
                outT = None
                stats.probe("transient_fault_propagated:" + kf)
            if fpts.fired:
                stats.fault("transient." + kf)
                stats.oracle_evals += 1
                log.ev("transient", i, label, kf, at, outT is None, outT == outA)
                if outT is not None and outT != outA:
                    violation("C18.transient-fault-changes-output", f"{label}|{kf}",
                              f"{label}: the step reported success after a transient fault ({kf}, occurrence {at} of {census[kf]}) "
                              f"but its output differs from the undisturbed step with the same inputs and seed {op['seed']}")
        # non-triviality: does the operation consume its generator at all?
        if outP is not None and outP != outA:
            stats.key(label, op.get("advance", 0) > 0)
            stats.probe("randomness_consumed:" + label.split(":")[0])
    if plan.get("fresh_twin"):
        _fresh_twins(plan, scratch, log, stats, violation)


def _fresh_twins(plan, scratch, log, stats, violation):
    """fault hashseed.change: the second twin of every operation of this run is executed in ONE fresh
    interpreter under another PYTHONHASHSEED (and therefore other set / dict-of-str iteration orders)."""
    import subprocess

    here = os.path.dirname(os.path.dirname(os.path.abspath(__file__)))
    outs = []
    steps = plan["steps"] if plan.get("fresh_all") else [op for op in plan["steps"] if op["kind"].startswith("f:")]
    if not steps:
        return  # quick tier: only function-level operations get the fresh-interpreter twin (no torch import)
    for op in steps:
        _purge_batchie_modules()
        try:
            outs.append(_j(_twin(op, scratch, op["eA"], 0)[0]))
        except Exception:
            outs.append(None)
    env = dict(os.environ)
    env["PYTHONHASHSEED"] = str(1 + (steps[0]["eB"] % 4000))
    code = ("import sys, json; sys.path.insert(0, %r); from engines import twinsim; "
            "print('FRESH ' + json.dumps(twinsim.fresh_main(json.loads(sys.stdin.read()))))" % here)
    def die_with_parent():  # a worker killed by its run timeout must not leave this interpreter behind
        import ctypes
        import signal

        ctypes.CDLL("libc.so.6", use_errno=True).prctl(1, signal.SIGKILL)

    try:
        p = subprocess.run([sys.executable, "-c", code], input=json.dumps(steps), capture_output=True, text=True, env=env,
                           timeout=600, preexec_fn=die_with_parent)
    except subprocess.TimeoutExpired:
        raise pipe.HarnessError("fresh-interpreter twin did not finish within 600 s")
    got = None
    for line in p.stdout.splitlines():
        if line.startswith("FRESH "):
            got = json.loads(line[6:])
    if got is None:
        raise pipe.HarnessError(f"fresh twin produced no result: {p.stdout[-500:]} {p.stderr[-1500:]}")
    for i, (op, a, g) in enumerate(zip(steps, outs, got)):
        if a is None:
            continue
        stats.fault("hashseed.change")
        stats.oracle_evals += 1
        log.ev("fresh", i, op["kind"], g.get("out") == a)
        if g.get("error"):
            violation("C18.twin-output", f"{op['kind']}|fresh-interpreter-raised", f"{op['kind']}: fresh-interpreter twin raised {g['error']}")
        elif g["out"] != a:
            violation("C18.twin-output", f"{op['kind']}|fresh-interpreter:hashseed",
                      f"{op['kind']}: identical inputs and seed but different output in a fresh interpreter under PYTHONHASHSEED={env['PYTHONHASHSEED']}")


def _j(x):
    return json.loads(json.dumps(x))


def fresh_main(ops):
    launch.quiet()
    if any(op["kind"].startswith("p:") for op in ops):
        launch.preload_cli()
    np.seterr(all="ignore")
    res = []
    with Scratch("fresh") as scratch:
        for op in ops:
            _purge_batchie_modules()
            try:
                out, _, _ = _twin(op, scratch, op["eA"], 0)
                res.append(dict(out=_j(out)))
            except Exception as e:
                res.append(dict(error=repr(e)))
    return res
