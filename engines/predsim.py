"""predsim: one holder of posterior samples shared by many prediction calls issued in a seeded,
worker-dependent order over whole screens, plate views, conditioned unions and arbitrary subsets.

Decided by simulation: (S) subset-equals-whole under every partition; (H) no call mutates the
samples or the screen, so results cannot depend on which worker ran first.  The remaining clauses
of C09 are evaluated as oracles on the rows these histories reach.  Serves C09 (claimed weak)."""
from __future__ import annotations

import json
import math

import numpy as np

from simkit import gen, launch, pipe, ref
from simkit.kernel import EventLog, Forks, RunStats, Violation, digest, f64_bits, sub_rng

SPEC = {
    "C09": dict(engine="predsim", level="exploration", runs=dict(quick=800, thorough=8000), chunk=8,
                rule="per run: one screen (arity 1 or 2, control in either or both columns), one holder of 2-5 samples of one of the "
                     "two shipped sample types, and a seeded history of 6-30 prediction calls (per-sample and stacked/averaged helpers) "
                     "on the whole screen, plate views, batch-conditioned unions, random subsets, a column-swapped twin and a "
                     "single-agent twin, all served by the same holder object; parameter and screen digests are compared before and "
                     "after every call; non-trivial if >= 3 different view kinds were predicted by the same holder; distinct = "
                     "distinct (sample type, arity, view kind sequence) tuples",
                real=["SparseDrugComboMCMCSample / SparseDrugComboInteractionMCMCSample predict_viability / predict_conditional_mean / "
                      "predict_conditional_variance", "batchie.common.copy_array_with_control_treatments_set_to_zero",
                      "batchie.models.main.predict_viability_all / predict_mean_all / predict_variance_all / predict_mean_avg / predict_viability_avg",
                      "batchie.data views (ScreenSubset, Plate), filter_dataset_to_unique_treatments"],
                stub=["simulator-chosen parameter arrays (no training)", "worker call order decided by the simulator"],
                assumptions=["C09 is mostly a statement about pure functions; only the subset/partition and never-mutates clauses are "
                             "decided by simulation, the others are oracles on reached rows", "tolerance 1e-9 relative for the loop reference, "
                             "1e-12 for column swap / mean of stacked"]),
}


def preload(prop):
    launch.quiet()
    import batchie.models.main  # noqa
    import batchie.models.sparse_combo_interaction  # noqa


VIEWS = ["whole", "plate", "plate", "subset", "subset", "union", "swap", "single", "empty"]
FUNCS = ["mean", "viab", "var", "mean_all", "viab_all", "var_all", "mean_avg", "viab_avg"]


def gen_plan(prop, run_seed, tier):
    F = Forks(run_seed)
    w, s = F.fork("workload"), F.fork("schedule")
    model = w.choice(["sdc", "sdc", "sdci"])
    arity = 2 if model == "sdci" else w.choice([2, 2, 2, 1])
    if arity == 2:
        spec = pipe.gen_pipeline_screen(w, n_plates=w.randint(1, 5), n_samples=w.randint(1, 4), control=w.choice(["", "control"]), big_rate=0.05)
    else:
        spec = pipe.gen_pipeline_screen(w, n_plates=w.randint(1, 4), n_samples=w.randint(1, 3), big_rate=0.05)
        for r in spec["rows"]:
            r[1] = [r[1][0] if r[1][0][1] > 0 else r[1][1]]
        spec["arity"] = 1
    pipe.ensure_noncontrol(spec)
    if w.random() < 0.25:
        gen.add_space_extra(w, spec)
    n_calls = s.randint(6, 14 if tier == "quick" else 30)
    calls = [dict(view=s.choice(VIEWS), fn=s.choice(FUNCS), sub=s.randrange(2**31)) for _ in range(n_calls)]
    n_holder = w.randint(2, 5) if w.random() < 0.9 else w.choice([33, 40, 65, 70])  # block boundaries of batched helpers
    return dict(engine="predsim", prop=prop, screen=spec, model=model, n=n_holder, D=w.randint(1, 4),
                seed=w.randrange(2**31), scale=w.choice([0.3, 1.0, 4.0, 30.0]), steps=calls,
                generations=w.choice([1, 2, 2, 3]))


def execute(prop, plan):
    launch.quiet()
    log, stats, viol = EventLog(), RunStats(), []

    def violation(oid, trigger, msg):
        sig = f"{oid}/{trigger}"
        log.ev("violation", sig)
        if not any(v["signature"] == sig for v in viol):
            viol.append(Violation(prop, oid, sig, msg))

    np.seterr(all="ignore")
    import gc

    # generations: a long-running driver creates posterior samples, predicts with them and drops them again;
    # the next generation (same shapes, other values) must not be affected by anything the previous one left behind
    for g in range(plan.get("generations", 1)):
        sub = dict(plan, seed=plan["seed"] + 7919 * g)
        if g:
            stats.probe("later_generation_of_samples")
        _run(sub, log, stats, violation)
        gc.collect()
        if viol:
            break
    return dict(digest=log.digest(), violations=viol, stats=stats.to_dict(), log_head=log.head)


def _relclose(a, b, tol, scale=None):
    """|a-b| <= tol * scale, where scale defaults to 1+|b|; for sums of products pass the sum of the
    absolute terms (cancellation makes |b| itself a misleading yardstick)."""
    a, b = np.asarray(a, dtype=float), np.asarray(b, dtype=float)
    if a.shape != b.shape:
        return False
    sc = (1 + np.abs(b)) if scale is None else (1 + np.asarray(scale, dtype=float))
    return bool(np.all(np.abs(a - b) <= tol * sc))


def _abs_theta(t):
    """The same sample with every parameter replaced by its absolute value: predicting with it gives
    the sum of absolute terms of each row (the natural floating-point scale of that row's mean)."""
    import copy

    u = copy.copy(t)
    for name in ("W", "W0", "V2", "V1", "V0"):
        if hasattr(u, name):
            setattr(u, name, np.abs(getattr(t, name)))
    if hasattr(u, "alpha"):
        u.alpha = abs(float(t.alpha))
    return u


def _run(plan, log, stats, violation):
    from batchie.core import ThetaHolder
    from batchie.data import Screen, filter_dataset_to_unique_treatments
    import batchie.models.main as MM

    spec = plan["screen"]
    arity = spec["arity"]
    screen = gen.make_screen(spec)
    n_samp, n_treat = pipe.space_sizes(screen)
    nprng = np.random.default_rng(plan["seed"])
    model = plan["model"]
    lookup = pipe.full_lookup(n_samp, n_treat, nprng)
    if model == "sdc":
        thetas = [pipe.make_sdc_theta(nprng, n_samp, n_treat, plan["D"], scale=plan["scale"]) for _ in range(plan["n"])]
    else:
        thetas = [pipe.make_sdci_theta(nprng, n_samp, n_treat, plan["D"], lookup, scale=min(plan["scale"], 1.0)) for _ in range(plan["n"])]
    holder = ThetaHolder(n_thetas=len(thetas))
    for t in thetas:
        holder.add_theta(t)
    param_digest0 = [pipe.theta_digest(t) for t in thetas]
    screen_digest0 = ref.logical_screen_digest(screen)
    rows = ref.content_rows(screen)
    ids = ref.row_ids(screen)
    n = len(rows)

    # whole-screen predictions, per sample: the yardstick for every subset
    def per_sample(fn, data):
        if fn == "mean":
            return [np.asarray(t.predict_conditional_mean(data), dtype=float) for t in thetas]
        if fn == "viab":
            return [np.asarray(t.predict_viability(data), dtype=float) for t in thetas]
        return [np.asarray(t.predict_conditional_variance(data), dtype=float) for t in thetas]

    whole = {fn: per_sample(fn, screen) for fn in ("mean", "viab", "var")}
    mag = [np.asarray(_abs_theta(t).predict_conditional_mean(screen), dtype=float) for t in thetas]
    # ---- oracles on every row of the whole screen (reached rows)
    for k, t in enumerate(thetas):
        for i in range(n):
            sid, tids, _ = ids[i]
            stats.oracle_evals += 1
            if model == "sdc":
                mu = ref.ref_predict_mean(t, sid, tids)
                v = ref.clip(ref.logistic(mu), 0.01, 0.99)
            else:
                mu = ref.ref_interaction_mean(t, sid, tids)
                se = ref.clip(lookup[(sid, tids[0])] * lookup[(sid, tids[1])], 0.01, 0.99)
                v = ref.clip(math.exp(mu + math.log(se)) if mu + math.log(se) < 700 else math.inf, 0.01, 0.99)
            got_mu, got_v, got_var = whole["mean"][k][i], whole["viab"][k][i], whole["var"][k][i]
            if not (abs(got_mu - mu) <= 1e-9 * (1 + abs(mu)) + 1e-12 * mag[k][i]):
                violation("C09.mean", model, f"sample {k} row {i} ids {(sid, tids)}: mean {got_mu!r}, loop reference {mu!r}")
                return
            if not (abs(got_v - v) <= 1e-9):
                violation("C09.viability", model, f"sample {k} row {i}: viability {got_v!r}, clip(logistic(mean)) reference {v!r}")
                return
            if not (got_var > 0 and abs(got_var - 1.0 / float(t.precision)) <= 1e-12 * abs(1.0 / float(t.precision))):
                violation("C09.variance", model, f"sample {k} row {i}: variance {got_var!r}, 1/precision = {1.0 / float(t.precision)!r}")
                return
        if len(whole["var"][k]) != n:
            violation("C09.variance", model + ":shape", f"variance has {len(whole['var'][k])} entries for {n} experiments")
            return

    kinds_used = []

    def check_unmutated(when):
        stats.oracle_evals += 1
        now = [pipe.theta_digest(t) for t in thetas]
        if now != param_digest0:
            bad = [k for k, (a, b) in enumerate(zip(now, param_digest0)) if a != b]
            violation("C09.sample-mutated", when, f"parameters of samples {bad} changed during a prediction call ({when})")
            return False
        if ref.logical_screen_digest(screen) != screen_digest0:
            violation("C09.screen-mutated", when, f"the screen changed during a prediction call ({when})")
            return False
        return True

    for ci, call in enumerate(plan["steps"]):
        rnd = sub_rng(call["sub"], "pred")
        view_kind, fn = call["view"], call["fn"]
        stats.steps += 1
        idx = None
        data = None
        twin = None
        if view_kind == "whole":
            data, idx = screen, list(range(n))
        elif view_kind == "plate":
            pid = rnd.choice(sorted({i[2] for i in ids}))
            data = screen.get_plate(pid)
            idx = [i for i in range(n) if ids[i][2] == pid]
        elif view_kind == "subset":
            sel = np.array([rnd.random() < 0.5 for _ in range(n)], dtype=bool)
            data, idx = screen.subset(sel), np.where(sel)[0].tolist()
        elif view_kind == "empty":
            data, idx = screen.subset(np.zeros(n, dtype=bool)), []
        elif view_kind == "union":
            pids = sorted({i[2] for i in ids})
            p = rnd.choice(pids)
            others = [screen.get_plate(q) for q in rnd.sample(pids, rnd.randint(1, len(pids)))]
            u = filter_dataset_to_unique_treatments(screen.get_plate(p).combine(type(others[0]).concat(others)))
            data, idx = u, np.where(np.asarray(u.selection_vector))[0].tolist()
        elif view_kind == "swap":
            if arity != 2:
                continue
            sp2 = json.loads(json.dumps(spec))
            for r in sp2["rows"]:
                r[1] = [r[1][1], r[1][0]]
            twin = gen.make_screen(sp2, treatment_mapping=screen.treatment_mapping, sample_mapping=screen.sample_mapping)
        elif view_kind == "single":
            if arity != 2:
                continue
            # rows (t, control) / (control, t): compare with the single agent t
            single_rows = [i for i in range(n) if sum(1 for x in ids[i][1] if x == -1) == 1]
            if not single_rows:
                continue
            if model == "sdc":
                sp1 = dict(control=spec["control"], arity=1, rows=[])
                for i in single_rows:
                    r = spec["rows"][i]
                    keep = r[1][0] if ids[i][1][0] != -1 else r[1][1]
                    sp1["rows"].append([r[0], [list(keep)], r[2], r[3], r[4]])
                twin = gen.make_screen(sp1, treatment_mapping=screen.treatment_mapping, sample_mapping=screen.sample_mapping)
                idx = single_rows
        kinds_used.append(view_kind)
        log.ev("call", ci, view_kind, fn, idx if idx is None else len(idx))
        try:
            if view_kind == "swap":
                for f2 in ("mean", "viab"):
                    got = per_sample(f2, twin)
                    for k in range(len(thetas)):
                        stats.oracle_evals += 1
                        if not _relclose(got[k], whole[f2][k], 1e-12, scale=(mag[k] if f2 == "mean" else 0.25 * mag[k])):
                            i = int(np.argmax(np.abs(got[k] - whole[f2][k]) / (1 + mag[k])))
                            violation("C09.column-order", f"{model}:{f2}",
                                      f"swapping the treatment columns changes sample {k}'s {f2} for row {i} {rows[i][1]}: "
                                      f"{whole[f2][k][i]!r} -> {got[k][i]!r}")
                            return
                if not check_unmutated("swap"):
                    return
                continue
            if view_kind == "single":
                if model == "sdc":
                    for f2 in ("mean", "viab"):
                        got = per_sample(f2, twin)
                        for k in range(len(thetas)):
                            stats.oracle_evals += 1
                            if not _relclose(got[k], whole[f2][k][idx], 1e-12, scale=(mag[k][idx] if f2 == "mean" else 0.25 * mag[k][idx])):
                                j = int(np.argmax(np.abs(got[k] - whole[f2][k][idx])))
                                violation("C09.control-neutral", f"{model}:{f2}",
                                          f"row {idx[j]} {rows[idx[j]][1]} (a pair with control) predicts {whole[f2][k][idx[j]]!r}; the single "
                                          f"agent predicts {got[k][j]!r}")
                                return
                else:
                    for k, t in enumerate(thetas):
                        for i in single_rows:
                            stats.oracle_evals += 1
                            if whole["mean"][k][i] != 0.0:
                                violation("C09.control-neutral", f"{model}:mean", f"row {i} {rows[i][1]} has a control treatment but interaction mean {whole['mean'][k][i]!r}")
                                return
                if not check_unmutated("single"):
                    return
                continue
            # subset-equals-whole, for the chosen function
            if fn in ("mean", "viab", "var"):
                got = per_sample(fn, data)
                for k in range(len(thetas)):
                    stats.oracle_evals += 1
                    want = whole[fn][k][idx] if idx else np.zeros(0)
                    if got[k].shape != want.shape or f64_bits(got[k]).tolist() != f64_bits(want).tolist():
                        violation("C09.subset-differs", f"{view_kind}:{fn}",
                                  f"{fn} of sample {k} on a {view_kind} view ({len(idx)} rows) differs from the same rows of the whole screen")
                        return
            else:
                base = fn.split("_")[0]
                if fn.endswith("_all"):
                    f = dict(mean=MM.predict_mean_all, viab=MM.predict_viability_all, var=MM.predict_variance_all)[base]
                    got = np.asarray(f(screen=data, thetas=holder), dtype=float)
                    stats.oracle_evals += 1
                    want = np.stack([whole[base][k][idx] if idx else np.zeros(0) for k in range(len(thetas))])
                    if got.shape != want.shape:
                        violation("C09.stacked-shape", fn, f"{fn} returned shape {got.shape}, expected one row per sample {want.shape}")
                        return
                    if f64_bits(got).tolist() != f64_bits(want).tolist():
                        violation("C09.stacked-order", fn, f"{fn} rows are not the samples' predictions in holder order")
                        return
                else:
                    f = dict(mean=MM.predict_mean_avg, viab=MM.predict_viability_avg)[base]
                    got = np.asarray(f(screen=data, thetas=holder), dtype=float)
                    stats.oracle_evals += 1
                    stack = np.stack([whole[base][k][idx] if idx else np.zeros(0) for k in range(len(thetas))])
                    want = stack.mean(axis=0) if stack.size else np.zeros(0)
                    if not _relclose(got, want, 1e-12):
                        violation("C09.average", fn, f"{fn} is not the mean of the stacked predictions")
                        return
        except Exception as e:
            violation("C09.predict-raised", f"{view_kind}:{fn}:{type(e).__name__}", f"{fn} on a {view_kind} view raised {e!r}")
            return
        if not check_unmutated(f"{view_kind}:{fn}"):
            return
    if len(set(kinds_used)) >= 3:
        stats.key(model, arity, tuple(kinds_used[:8]))
    if any(-1 in i[1] for i in ids):
        stats.probe("control_rows_predicted")
    if any(all(x == -1 for x in i[1]) for i in ids):
        stats.probe("all_control_row_predicted")


def reducers(prop, plan):
    rows = plan["screen"]["rows"]
    if len(rows) > 1:
        for i in range(len(rows)):
            cand = json.loads(json.dumps(plan))
            del cand["screen"]["rows"][i]
            yield cand
    if plan["n"] > 2:
        cand = json.loads(json.dumps(plan))
        cand["n"] -= 1
        yield cand
