"""scoresim (pipesim scoring + selection phases): one calculate_scores worker per chunk, a seeded
completion order, the select_next_plate process receiving the score files in arrival order.
A recording scorer / policy (resolved by the CLIs' own introspection) log what was scored and
what was allowed.  Serves C06."""
from __future__ import annotations

import json
import math

import numpy as np

from simkit import gen, launch, pipe
from simkit.kernel import EventLog, Forks, RunStats, Scratch, Violation, digest, f64_bits, sub_rng

SPEC = {
    "C06": dict(engine="scoresim", level="exploration", runs=dict(quick=600, thorough=6000), chunk=5,
                rule="per run: a screen with 1-12 plates (some observed), a batch of already selected ids (empty / unobserved / "
                     "observed / mixed / all candidates), n_chunks from 1 to more than the number of candidates, one scoring worker "
                     "per chunk (real CLI or direct call) with a recording scorer (Size / Random / GaussianDBAL / scripted scores with "
                     "ties and -inf), score files combined in a seeded arrival order, selection with no policy / k-per-sample / a "
                     "scripted policy; non-trivial if >= 2 candidates were scored in >= 2 chunks; distinct = distinct (#candidates, "
                     "n_chunks, |batch| class, arrival permutation class, tie pattern, scorer, policy, path) tuples",
                real=["batchie.cli.calculate_scores.main, batchie.cli.select_next_plate.main (in-process launches)",
                      "batchie.scoring.main.score_chunk / select_next_plate / ChunkedScoresHolder (add, save, load, combine, concat, argmin)",
                      "batchie.data.filter_dataset_to_unique_treatments, SizeScorer, RandomScorer, GaussianDBALScorer, KPerSamplePlatePolicy"],
                stub=["nextflow scheduling of score workers and groupTuple() arrival order",
                      "recording Scorer / PlatePolicy wrappers (through the Scorer / PlatePolicy interfaces); scripted score tables"],
                assumptions=["score values are finite or -inf (NaN scores are outside the statement)"]),
}

REC = dict(scorer=None, policy=None)


def _install():
    if REC["scorer"] is not None:
        return
    from batchie.core import PlatePolicy, Scorer
    from batchie.policies.k_per_sample import KPerSamplePlatePolicy
    from batchie.scoring.gaussian_dbal import GaussianDBALScorer
    from batchie.scoring.rand import RandomScorer
    from batchie.scoring.size import SizeScorer

    class RecordingScorer(Scorer):
        config = {}
        calls = []

        def __init__(self):
            pass

        def score(self, plates, distance_matrix, samples, rng, progress_bar):
            cfg = RecordingScorer.config
            kind = cfg["kind"]
            if kind == "scripted":
                out = {k: cfg["table"][int(k)] for k in plates.keys()}
            else:
                inner = {"size": SizeScorer, "random": RandomScorer}.get(kind)
                inner = inner() if inner else GaussianDBALScorer(max_chunk=cfg.get("max_chunk", 50), max_triples=5000)
                out = inner.score(plates=plates, distance_matrix=distance_matrix, samples=samples, rng=rng, progress_bar=False)
            rec = {}
            for k, v in plates.items():
                rec[int(k)] = (tuple(np.where(np.asarray(v.selection_vector))[0].tolist()), float(out[k]) if k in out else None)
            RecordingScorer.calls.append(rec)
            return out

    class RecordingPolicy(PlatePolicy):
        config = {}
        calls = []

        def __init__(self):
            pass

        def filter_eligible_plates(self, batch_plates, unobserved_plates, rng):
            cfg = RecordingPolicy.config
            if cfg["kind"] == "kper":
                if cfg.get("reuse"):
                    # one policy object serves every selection of the run
                    if cfg.get("obj") is None or cfg.get("obj_k") != cfg["k"]:
                        cfg["obj"], cfg["obj_k"] = KPerSamplePlatePolicy(k=cfg["k"]), cfg["k"]
                    real = cfg["obj"]
                else:
                    real = KPerSamplePlatePolicy(k=cfg["k"])
                res = real.filter_eligible_plates(batch_plates, unobserved_plates, rng)
            else:
                res = [p for p in unobserved_plates if int(p.plate_id) in cfg["allowed"]]
            RecordingPolicy.calls.append((sorted(int(p.plate_id) for p in batch_plates),
                                          [int(p.plate_id) for p in unobserved_plates],
                                          [int(p.plate_id) for p in res]))
            return res

    pipe.inject_class("batchie.scoring.size", RecordingScorer)
    pipe.inject_class("batchie.policies.k_per_sample", RecordingPolicy)
    REC["scorer"], REC["policy"] = RecordingScorer, RecordingPolicy


def reset_state():
    REC["scorer"] = REC["policy"] = None


def preload(prop):
    launch.preload_cli()
    import batchie.cli.calculate_scores  # noqa
    import batchie.cli.select_next_plate  # noqa

    _install()


def gen_plan(prop, run_seed, tier):
    F = Forks(run_seed)
    w, s = F.fork("workload"), F.fork("schedule")
    policy = s.choice(["none", "none", "kper", "scripted"])
    n_plates = w.choice([1, 2, 3, 4, 5, 6, 8, 10, 12, 12, 16, 17, 19, 23, 31])
    if w.random() < 0.05:  # more plates than any plausible block size
        n_plates = w.choice([33, 70, 130])
    spec = pipe.gen_pipeline_screen(w, n_plates=n_plates, single_sample_plates=(policy == "kper"),
                                    observed_plates=w.randint(0, max(0, n_plates - 1)), n_samples=w.randint(1, 3))
    # duplicate conditions across plates so that the unique-condition filter has work to do
    rows = spec["rows"]
    keep_sample = policy == "kper"  # the k-per-sample policy needs single-sample plates
    for _ in range(w.randint(0, 4)):
        a, b = w.choice(rows), w.choice(rows)
        b[0], b[1] = (b[0] if keep_sample else a[0]), [list(t) for t in a[1]]
    if w.random() < 0.3 and len(rows) >= 2:
        a, b = w.sample(rows, 2)  # the same pair in swapped order: (a,b) and (b,a) are kept apart
        b[0], b[1] = (b[0] if keep_sample else a[0]), [list(a[1][1]), list(a[1][0])]
    pipe.ensure_noncontrol(spec)
    scorer = w.choice(["size", "random", "dbal", "scripted", "scripted", "scripted"])
    if w.random() < 0.25:
        gen.add_space_extra(w, spec)
    return dict(engine="scoresim", prop=prop, screen=spec, scorer=scorer, n_thetas=w.randint(3, 5), D=w.randint(1, 2),
                seed=w.randrange(2**31), n_chunks=s.choice([1, 1, 2, 3, 4, n_plates, n_plates + 1, n_plates + 4, 16, 7, 11, 13, s.randint(1, n_plates + 4),
                                   s.randint(max(1, n_plates // 2), n_plates + 1)]),
                batch_mode=s.choice(["none", "none", "unobserved", "unobserved", "observed", "mixed", "all"]),
                order_seed=s.randrange(2**31), policy=policy, k=s.randint(1, 3), path=s.choice(["cli", "func", "func-shared"]),
                tie_mode=w.choice(["distinct", "ties", "ties", "neginf", "all-equal", "near-ties", "near-ties"]), max_chunk=w.choice([1, 2, 50]))


def execute(prop, plan):
    launch.quiet()
    _install()
    log, stats, viol = EventLog(), RunStats(), []

    def violation(oid, trigger, msg):
        sig = f"{oid}/{trigger}"
        log.ev("violation", sig)
        if not any(v["signature"] == sig for v in viol):
            viol.append(Violation(prop, oid, sig, msg))

    with Scratch("score") as scratch:
        _run(plan, scratch, log, stats, violation)
    return dict(digest=log.digest(), violations=viol, stats=stats.to_dict(), log_head=log.head)


def _run(plan, scratch, log, stats, violation):
    from batchie.core import ThetaHolder
    from batchie.data import Screen
    from batchie.distance.mse import MSEDistance
    from batchie.distance_calculation import ChunkedDistanceMatrix, calculate_pairwise_distance_matrix_on_predictions
    from batchie.scoring.main import ChunkedScoresHolder, score_chunk, select_next_plate

    RS, RP = REC["scorer"], REC["policy"]
    screen = gen.make_screen(plan["screen"])
    rows = pipe_rows(screen)
    rnd = sub_rng(plan["seed"], "score")
    pid_rows = {}
    for i, r in enumerate(rows):
        pid_rows.setdefault(r["pid"], []).append(i)
    observed = {p for p, idx in pid_rows.items() if all(rows[i]["obs"] for i in idx)}
    unobserved = sorted(set(pid_rows) - observed)
    # ---- batch of already selected ids
    mode = plan["batch_mode"]
    if mode == "none":
        batch = []
    elif mode == "unobserved":
        batch = rnd.sample(unobserved, rnd.randint(1, len(unobserved))) if unobserved else []
        if len(batch) == len(unobserved) and len(batch) > 1 and rnd.random() < 0.7:
            batch = batch[:-1]
    elif mode == "observed":
        batch = rnd.sample(sorted(observed), rnd.randint(1, len(observed))) if observed else []
    elif mode == "mixed":
        allp = sorted(pid_rows)
        batch = rnd.sample(allp, rnd.randint(1, len(allp)))
        if set(unobserved) <= set(batch) and len(unobserved) > 0 and rnd.random() < 0.7:
            batch.remove(unobserved[0])
    elif mode == "all":
        batch = list(unobserved)
    batch = [int(b) for b in batch]
    batch_set = set(batch)
    candidates = [p for p in unobserved if p not in batch_set]
    log.ev("setup", sorted(pid_rows), sorted(observed), batch, plan["n_chunks"], plan["scorer"], plan["policy"], plan["path"])

    # ---- files
    spath = scratch.file("screen.h5")
    screen.save_h5(spath)
    nprng = np.random.default_rng(plan["seed"])
    n_samp, n_treat = pipe.space_sizes(screen)
    thetas = [pipe.make_sdc_theta(nprng, n_samp, n_treat, plan["D"], scale=0.7, precision=float(10 ** nprng.uniform(-1, 2)))
              for _ in range(plan["n_thetas"])]
    tpath = pipe.save_holder(thetas, scratch.file("thetas.h5"))
    holder = ThetaHolder.load_h5(tpath)
    dm = calculate_pairwise_distance_matrix_on_predictions(thetas=holder, distance_metric=MSEDistance(), data=screen,
                                                           chunk_index=0, n_chunks=1)
    dpath = scratch.file("distance_matrix_chunk_0.h5")
    dm.save(dpath)

    # ---- scripted score table
    table = {}
    if plan["scorer"] == "scripted":
        tm = plan["tie_mode"]
        pool = [1.0, 2.0, 2.0, 3.5, -1.0, 0.0, -0.0, 7.25]
        for p in sorted(pid_rows):
            if tm == "distinct":
                table[p] = float(p) * 1.5 - 3 + rnd.random()
            elif tm == "all-equal":
                table[p] = 4.0
            elif tm == "neginf":
                table[p] = -math.inf if rnd.random() < 0.4 else rnd.choice(pool)
            elif tm == "near-ties":
                # distinct scores that a tolerance would call equal: one ulp apart, 1e-9 relative, below 1e-8 absolute
                base, kind = (3.0, rnd.randrange(3)) if p % 2 else (1e5, 1)
                k = rnd.randrange(-3, 4)
                table[p] = [float(np.nextafter(base, base + k) if k else base) if abs(k) == 1 else base + k * 2.0 ** -50 * base,
                            base * (1 + k * 1e-9), k * 1e-9][kind]
            else:
                table[p] = rnd.choice(pool)
    RS.config = dict(kind=plan["scorer"], table=table, max_chunk=plan["max_chunk"])
    RS.calls = []
    RP.calls = []
    if plan["policy"] == "kper":
        RP.config = dict(kind="kper", k=plan["k"])
    elif plan["policy"] == "scripted":
        allowed = {p for p in sorted(pid_rows) if rnd.random() < 0.6}
        if rnd.random() < 0.15:
            allowed = set()
        if rnd.random() < 0.2:
            allowed |= observed | batch_set  # a policy is only ever handed unobserved non-batch plates; extra ids are inert
        RP.config = dict(kind="scripted", allowed=allowed)

    # ---- score workers, one per chunk, seeded completion order
    order = list(range(plan["n_chunks"]))
    sub_rng(plan["order_seed"], "order").shuffle(order)
    files = {}
    per_chunk_calls = {}
    shared = None
    if plan["path"] == "func-shared":
        # one driver process keeps the loaded screen / samples / distances / scorer and serves every chunk index
        shared = dict(scorer=RS(), thetas=ThetaHolder.load_h5(tpath), screen=Screen.load_h5(spath),
                      dm=ChunkedDistanceMatrix.load(dpath))
    for ci in order:
        out = scratch.file(f"score_chunk_{ci}.h5")
        before = len(RS.calls)
        pipe.LEFTOVERS["on_rerun"] = [lambda before=before: RS.calls.__delitem__(slice(before, None))]
        try:
            if shared is not None:
                res = score_chunk(scorer=shared["scorer"], thetas=shared["thetas"], screen=shared["screen"],
                                  distance_matrix=shared["dm"], rng=np.random.default_rng(plan["seed"] + ci),
                                  n_chunks=plan["n_chunks"], chunk_index=ci, batch_plate_ids=list(batch) if batch else None)
                res.save_h5(out)
            elif plan["path"] == "cli":
                pipe.p_scores(spath, [tpath], [dpath], out, n_chunks=plan["n_chunks"], chunk_index=ci, scorer="RecordingScorer",
                              batch=batch, seed=plan["seed"] % 1000, entropy=pipe.h64(plan["seed"], "score", ci))
            else:
                res = score_chunk(scorer=RS(), thetas=ThetaHolder.load_h5(tpath), screen=Screen.load_h5(spath),
                                  distance_matrix=ChunkedDistanceMatrix.load(dpath), rng=np.random.default_rng(plan["seed"] + ci),
                                  n_chunks=plan["n_chunks"], chunk_index=ci, batch_plate_ids=list(batch) if batch else None)
                res.save_h5(out)
        except pipe.HarnessError:
            raise
        except Exception as e:
            violation("C06.score-worker-crashed", f"{plan['path']}:{type(e).__name__}",
                      f"score worker {ci}/{plan['n_chunks']} (batch {batch}, {len(candidates)} candidates) raised {e!r}")
            return
        stats.steps += 1
        files[ci] = out
        per_chunk_calls[ci] = RS.calls[before:]
        log.ev("chunk", ci, pipe.score_file_digest(out))
        tr = sub_rng(plan["seed"], "torn", ci)
        if tr.random() < 0.2:
            # fault store.torn-save: a score chunk file cut off while being written must be refused or read as what it is
            from batchie.scoring.main import ChunkedScoresHolder as _CSH

            whole = _CSH.load_h5(out)
            dg = pipe.score_file_digest(out)

            def _same(g, dg=dg):
                p2 = scratch.file("reread.h5")
                g.save_h5(p2)
                return pipe.score_file_digest(p2) == dg

            verdict = pipe.torn_roundtrip(whole.save_h5, _CSH.load_h5, _same, scratch.file("count.h5"), scratch.file("torn.h5"), tr.random())
            if verdict:
                stats.fault("store.torn-save")
                stats.probe("torn_archive_" + verdict)
                log.ev("torn", ci, verdict)
            if verdict == "different":
                violation("C06.torn-archive-read-as-something-else", "ChunkedScoresHolder.load_h5",
                          f"a score chunk file whose writing was cut off was accepted and reads as other content than chunk {ci}")
                return

    # ---- oracle 1: every candidate scored exactly once across all chunk indices
    stats.oracle_evals += 1
    scored = []
    recorded_score = {}
    views = {}
    for ci in sorted(per_chunk_calls):
        for call in per_chunk_calls[ci]:
            for p, (idx, sc) in call.items():
                scored.append(p)
                recorded_score[p] = sc
                views[p] = idx
    if sorted(scored) != sorted(candidates):
        violation("C06.scored-set", "score_chunk",
                  f"plates handed to the scorer across {plan['n_chunks']} chunks: {sorted(scored)}; unobserved plates not in the batch "
                  f"{batch}: {sorted(candidates)}")
        return
    # ---- oracle 2: conditioning on the batch
    ids = [(r["sid"], r["tids"]) for r in rows]
    batch_rows = sorted(i for b in batch_set for i in pid_rows.get(b, []))
    for p in candidates:
        stats.oracle_evals += 1
        union = sorted(set(pid_rows[p]) | set(batch_rows)) if batch_rows or batch else sorted(pid_rows[p])
        got = list(views[p])
        if not batch_rows:
            if got != sorted(pid_rows[p]):
                violation("C06.scored-view", "no-batch", f"candidate {p} scored on rows {got}, its own rows are {sorted(pid_rows[p])}")
                return
            continue
        if not set(got) <= set(union):
            violation("C06.scored-view", "outside-union", f"candidate {p} scored on rows {got} outside plate+batch rows {union}")
            return
        keys_union = {ids[i] for i in union}
        keys_got = [ids[i] for i in got]
        if len(keys_got) != len(set(keys_got)) or set(keys_got) != keys_union:
            violation("C06.scored-view", "unique-conditions",
                      f"candidate {p} with batch {batch}: scored rows {got} carry conditions {keys_got}; the union has "
                      f"{len(keys_union)} distinct conditions")
            return
        stats.probe("batch_conditioning_checked")
    # saved scores = recorded scores
    # ---- selection process: files in arrival order
    arrival = [files[ci] for ci in order]
    sub_rng(plan["order_seed"], "arrival").shuffle(arrival)
    stats.fault("order.permute")
    sel_out = scratch.file("selected_plate")
    pipe.LEFTOVERS["on_rerun"] = [lambda: RP.calls.clear()]
    try:
        if plan["path"] == "cli":
            got = pipe.p_select(spath, arrival, sel_out, policy=None if plan["policy"] == "none" else "RecordingPolicy",
                                batch=batch, seed=3, entropy=pipe.h64(plan["seed"], "select"))
        else:
            holders = [ChunkedScoresHolder.load_h5(x) for x in arrival]
            sc = ChunkedScoresHolder.concat(holders)
            pl = select_next_plate(scores=sc, screen=(shared["screen"] if shared is not None else Screen.load_h5(spath)),
                                   policy=None if plan["policy"] == "none" else RP(),
                                   batch_plate_ids=list(batch), rng=np.random.default_rng(5))
            got = -1 if pl is None else int(pl.plate_id)
    except pipe.HarnessError:
        raise
    except Exception as e:
        violation("C06.select-crashed", f"{plan['path']}:{type(e).__name__}",
                  f"select_next_plate (batch {batch}, candidates {candidates}, policy {plan['policy']}) raised {e!r}")
        return
    stats.steps += 1
    stats.oracle_evals += 1
    if plan["policy"] == "none":
        allowed = list(candidates)
    else:
        if len(RP.calls) != 1:
            violation("C06.policy-calls", "select_next_plate", f"policy consulted {len(RP.calls)} times")
            return
        b_seen, u_seen, allowed = RP.calls[0]
        if sorted(u_seen) != sorted(candidates):
            violation("C06.policy-input", "unobserved", f"policy was handed plates {u_seen}; candidates are {candidates}")
            return
        if b_seen != sorted(b for b in batch_set if b in pid_rows):
            violation("C06.policy-input", "batch", f"policy was handed batch {b_seen}; batch is {sorted(batch_set)}")
            return
    log.ev("selected", got, allowed)
    if not allowed:
        if got != -1:
            violation("C06.selected-when-none-allowed", plan["path"], f"plate {got} returned although no plate is allowed")
        stats.probe("nothing_allowed")
    else:
        if got == -1:
            violation("C06.nothing-selected", plan["path"], f"nothing returned although plates {allowed} are allowed")
        elif got not in candidates:
            violation("C06.selected-ineligible", plan["path"], f"plate {got} is observed or in the batch {batch} (candidates {candidates})")
        elif got not in allowed:
            violation("C06.selected-not-allowed", plan["path"], f"plate {got} is not in the policy's allowed set {allowed}")
        else:
            lower = [p for p in allowed if recorded_score[p] < recorded_score[got]]
            if lower:
                violation("C06.not-minimum", plan["path"],
                          f"plate {got} (score {recorded_score[got]}) chosen but allowed plates {lower} score lower "
                          f"({[recorded_score[p] for p in lower]}); arrival {[order.index(ci) for ci in order]}")
    nonempty_chunks = sum(1 for ci in per_chunk_calls if any(per_chunk_calls[ci]) and any(len(c) for c in per_chunk_calls[ci]))
    if len(candidates) >= 2 and nonempty_chunks >= 2:
        sc_vals = [recorded_score[p] for p in candidates]
        tie = "ties" if len(set(sc_vals)) < len(sc_vals) else "distinct"
        if any(v == -math.inf for v in sc_vals):
            tie += "+neginf"
        bclass = "0" if not batch else ("obs" if batch_set <= observed else ("unobs" if batch_set <= set(unobserved) else "mixed"))
        stats.key(len(candidates), min(plan["n_chunks"], 17), bclass, tie, plan["scorer"], plan["policy"], plan["path"])
    if plan["n_chunks"] > len(candidates):
        stats.probe("more_chunks_than_candidates")


def pipe_rows(screen):
    sid = np.asarray(screen.sample_ids).tolist()
    tid = np.asarray(screen.treatment_ids).tolist()
    pid = np.asarray(screen.plate_ids).tolist()
    mk = np.asarray(screen.observation_mask).tolist()
    return [dict(sid=int(s), tids=tuple(int(x) for x in t), pid=int(p), obs=bool(m)) for s, t, p, m in zip(sid, tid, pid, mk)]


def reducers(prop, plan):
    if plan["n_chunks"] > 1:
        cand = json.loads(json.dumps(plan))
        cand["n_chunks"] = plan["n_chunks"] - 1
        yield cand
    if plan["path"] == "cli":
        cand = json.loads(json.dumps(plan))
        cand["path"] = "func"
        yield cand
    rows = plan["screen"]["rows"]
    if len(rows) > 2:
        for i in range(1, len(rows)):
            cand = json.loads(json.dumps(plan))
            del cand["screen"]["rows"][i]
            yield cand
